#!/usr/bin/env python3
"""tools/seedmeta.py <mutroot> ID-mK ... : copy a verified seeded defect into /verif/seeded/<ID>-mK/
(patch.diff, demo_test.go.txt, README.md) and write meta.json from the verification record
(<mutroot>/<ID>-<m>.verify.json) and the check results (<mutroot>/results.json)."""
import json, os, shutil, sys
root = sys.argv[1]
results = json.load(open(os.path.join(root, "results.json")))
for name in sys.argv[2:]:
    ID, m = name.split("-")
    src = os.path.join(root, ID + "-out", m)
    dst = os.path.join("/verif/seeded", name)
    os.makedirs(dst, exist_ok=True)
    if os.path.exists(os.path.join(src, "patch.diff")):
        shutil.copy(os.path.join(src, "patch.diff"), os.path.join(dst, "patch.diff"))
        shutil.copy(os.path.join(src, "demo_test.go"), os.path.join(dst, "demo_test.go.txt"))
        shutil.copy(os.path.join(src, "README.md"), os.path.join(dst, "README.md"))
    vpath = os.path.join(root, "%s-%s.verify.json" % (ID, m))
    old = {}
    if os.path.exists(os.path.join(dst, "meta.json")):
        old = json.load(open(os.path.join(dst, "meta.json")))
    verified = old.get("verified", {})
    if os.path.exists(vpath):
        v = json.load(open(vpath))
        verified = {"patch_applies": v["apply"], "builds": v["build"], "existing_suite_passes_with_patch": v["suite_pass_with_patch"],
                    "demo_fails_with_patch": v["demo_fails_with_patch"], "demo_passes_without_patch": v["demo_passes_without"],
                    "how": "git apply in a scratch worktree; go build ./...; go test -mod=mod -vet=off -count=1 ./...; the demonstration with and without the patch (package %s, -run %s)" % (v["pkg"], v["pat"])}
    checks = {}
    for k, r in results.items():
        if k.startswith(name + "/"):
            checks[k.split("/")[1]] = {"detected": r["exit"] == 1 and len(r["violations"]) > 0, "signatures": r["violations"], "wall_s": r["wall_s"]}
    meta = {"id": name, "breaks_property": ID[:3], "origin": "independent sub-agent given only the property text and a scratch worktree",
            "needs_to_manifest": "see README.md (written by the sub-agent)", "verified": verified, "checks_run": checks}
    if old.get("note"):
        meta["note"] = old["note"]
    json.dump(meta, open(os.path.join(dst, "meta.json"), "w"), indent=1)
    print(name, {k: v["detected"] for k, v in checks.items()})
