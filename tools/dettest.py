#!/usr/bin/env python3
"""Determinism experiment (DESIGN.md section 6): tools/dettest.py <check id> [config] [procs] [runs]
Builds the check's simulator binary (bin/check --keep with a 1 s budget), then executes the same
`runs` run indexes in `procs` separate processes - a third of them at GOMAXPROCS 1, 4 and 16 when
the simulator does not pin GOMAXPROCS, else all at the pinned value - and compares the event-log
hashes. Prints one line per run index with the number of distinct hashes (must be 1)."""
import json, os, subprocess, sys, glob, collections
VERIF = "/verif"
chk = sys.argv[1]
checks = json.load(open(os.path.join(VERIF, "checks.json")))
c = checks["checks"][chk]; sim = checks["sims"][c["sim"]]
config = sys.argv[2] if len(sys.argv) > 2 else c["configs"][0][0]
procs = int(sys.argv[3]) if len(sys.argv) > 3 else 30
runs = int(sys.argv[4]) if len(sys.argv) > 4 else 6
env = dict(os.environ, GOFLAGS="-mod=mod", GOPROXY="off", GOSUMDB="off", GOTOOLCHAIN="local")
subprocess.run(["python3", "bin/check", chk, "--budget", "1", "--keep"], cwd=VERIF, env=env, stdout=subprocess.DEVNULL, stderr=subprocess.DEVNULL)
scratch = "/dev/shm/verif-scratch/%s-%s" % (c["sim"], chk)
binp = os.path.join(scratch, c["sim"] + ".test")
pinned = sim.get("gomaxprocs")
res = collections.defaultdict(set)
per_gmp = collections.defaultdict(lambda: collections.defaultdict(set))
ps = []
for p in range(procs):
    gmp = pinned if (pinned and pinned == 1) else [1, 4, 16][p % 3]
    out = os.path.join(scratch, "dt%d" % p); os.makedirs(out, exist_ok=True)
    e = dict(env, VERIF_PROP=chk, VERIF_CONFIG=config, VERIF_SEED="1", VERIF_WORKER="0", VERIF_WORKERS="1", VERIF_RUNS=str(runs),
             VERIF_BUDGET_S="600", VERIF_OUT=out, GOMAXPROCS=str(gmp), VERIF_MODE="search",
             VERIF_RUN_INDEXES=",".join(map(str, range(runs))), VERIF_DET_RUNS=str(runs), VERIF_SHRINK_S="0")
    e.update(sim.get("env", {}))
    ps.append((subprocess.Popen([binp, "-test.run", "^TestSim$", "-test.timeout", "0"], env=e, cwd=out, stdout=subprocess.DEVNULL, stderr=subprocess.DEVNULL), out, gmp))
    if len(ps) >= 6:
        for q, o, g in ps:
            q.wait()
        ps_done, ps = ps, []
        for q, o, g in ps_done:
            for f in glob.glob(os.path.join(o, "det-*.json")):
                for k, h in json.load(open(f))["seed_hashes"].items():
                    res[k].add(h); per_gmp[g][k].add(h)
for q, o, g in ps:
    q.wait()
    for f in glob.glob(os.path.join(o, "det-*.json")):
        for k, h in json.load(open(f))["seed_hashes"].items():
            res[k].add(h); per_gmp[g][k].add(h)
ok = all(len(v) == 1 for v in res.values()) and len(res) == runs
print("%s/%s: %d processes x %d runs, GOMAXPROCS %s: %s" % (chk, config, procs, runs, sorted(per_gmp.keys()), "identical" if ok else "DIFFERENT"))
for k in sorted(res, key=int):
    if len(res[k]) != 1:
        print("  run %s: %d distinct hashes; per GOMAXPROCS: %s" % (k, len(res[k]), {g: len(per_gmp[g][k]) for g in per_gmp}))
subprocess.run(["rm", "-rf", scratch])
sys.exit(0 if ok else 1)
