// rewrite instruments a scratch copy of the repository (never /repo itself).
// It is purely syntactic (go/ast, no type information), idempotent per file, and fails
// loudly (exit 2) on anything it does not understand or when an expected site is missing.
//
// usage: rewrite -root <scratch> -spec <spec.json>
//
// spec: { "packages": [ { "dir": "poc/wallet/db/ldb",
//                         "selectors": {"leveldb.OpenFile": "vos.OpenLevelDB"},
//                         "expect": {"leveldb.OpenFile": 1},
//                         "imports": {"vos": "verif/sim/vos"},
//                         "mutex": true, "gostmt": true, "yield": true,
//                         "consts": {"minMapABufMem": "4096"} } ] }
package main

import (
	"bytes"
	"encoding/json"
	"flag"
	"fmt"
	"go/ast"
	"go/format"
	"go/parser"
	"go/token"
	"os"
	"path/filepath"
	"sort"
	"strconv"
	"strings"
)

type PkgSpec struct {
	Dir       string            `json:"dir"`
	Files     []string          `json:"files"`     // optional: restrict to these base names
	Selectors map[string]string `json:"selectors"` // "pkg.Name" -> "newpkg.Name"
	Expect    map[string]int    `json:"expect"`    // minimal number of replaced sites per selector
	Imports   map[string]string `json:"imports"`   // local name -> import path, added when used
	Mutex     bool              `json:"mutex"`     // sync.Mutex/RWMutex/WaitGroup -> vsync.*
	GoStmt    bool              `json:"gostmt"`    // go f(x) -> vsim.Go("site", func(){ f(x) })
	Yield     bool              `json:"yield"`     // vsim.Yield("site") before sync statements
	Consts    map[string]string `json:"consts"`    // const/var name -> replacement expression source
	SkipFuncs []string          `json:"skip_funcs"` // function names in which no yields are inserted
}

type Spec struct {
	Packages []PkgSpec `json:"packages"`
}

func die(format string, args ...interface{}) {
	fmt.Fprintf(os.Stderr, "rewrite: "+format+"\n", args...)
	os.Exit(2)
}

func main() {
	root := flag.String("root", "", "scratch copy root")
	specPath := flag.String("spec", "", "spec json")
	flag.Parse()
	b, err := os.ReadFile(*specPath)
	if err != nil {
		die("%v", err)
	}
	var spec Spec
	if err := json.Unmarshal(b, &spec); err != nil {
		die("spec: %v", err)
	}
	for _, p := range spec.Packages {
		rewritePkg(*root, p)
	}
}

func rewritePkg(root string, p PkgSpec) {
	dir := filepath.Join(root, p.Dir)
	ents, err := os.ReadDir(dir)
	if err != nil {
		die("%v", err)
	}
	counts := map[string]int{}
	constDone := map[string]bool{}
	for _, e := range ents {
		name := e.Name()
		if e.IsDir() || !strings.HasSuffix(name, ".go") || strings.HasSuffix(name, "_test.go") || strings.HasPrefix(name, "zz") {
			continue
		}
		if strings.HasSuffix(name, "_windows.go") {
			continue
		}
		if len(p.Files) > 0 {
			ok := false
			for _, f := range p.Files {
				if f == name {
					ok = true
				}
			}
			if !ok {
				continue
			}
		}
		rewriteFile(filepath.Join(dir, name), filepath.ToSlash(filepath.Join(p.Dir, name)), p, counts, constDone)
	}
	for sel, n := range p.Expect {
		if counts[sel] < n {
			die("%s: expected >=%d sites of %s, rewrote %d (the source changed shape; no verdict)", p.Dir, n, sel, counts[sel])
		}
	}
	for c := range p.Consts {
		if !constDone[c] {
			die("%s: const %s not found", p.Dir, c)
		}
	}
}

type rewriter struct {
	fset    *token.FileSet
	rel     string
	p       PkgSpec
	counts  map[string]int
	used    map[string]bool // local import names introduced
	file    *ast.File
	changed bool
}

func rewriteFile(path, rel string, p PkgSpec, counts map[string]int, constDone map[string]bool) {
	fset := token.NewFileSet()
	f, err := parser.ParseFile(fset, path, nil, parser.ParseComments)
	if err != nil {
		die("parse %s: %v", path, err)
	}
	rw := &rewriter{fset: fset, rel: rel, p: p, counts: counts, used: map[string]bool{}, file: f}

	// consts
	for _, d := range f.Decls {
		gd, ok := d.(*ast.GenDecl)
		if !ok || (gd.Tok != token.CONST && gd.Tok != token.VAR) {
			continue
		}
		for _, s := range gd.Specs {
			vs := s.(*ast.ValueSpec)
			for i, n := range vs.Names {
				if repl, ok := p.Consts[n.Name]; ok && i < len(vs.Values) {
					e, err := parser.ParseExpr(repl)
					if err != nil {
						die("const %s: %v", n.Name, err)
					}
					vs.Values[i] = e
					constDone[n.Name] = true
					rw.changed = true
				}
			}
		}
	}

	if p.Yield || p.GoStmt {
		for _, d := range f.Decls {
			fd, ok := d.(*ast.FuncDecl)
			if !ok || fd.Body == nil {
				continue
			}
			skip := false
			for _, s := range p.SkipFuncs {
				if s == fd.Name.Name {
					skip = true
				}
			}
			rw.block(fd.Body, skip)
		}
	}

	// selectors + mutex types
	ast.Inspect(f, func(n ast.Node) bool {
		se, ok := n.(*ast.SelectorExpr)
		if !ok {
			return true
		}
		id, ok := se.X.(*ast.Ident)
		if !ok {
			return true
		}
		key := id.Name + "." + se.Sel.Name
		if repl, ok := p.Selectors[key]; ok {
			parts := strings.SplitN(repl, ".", 2)
			id.Name, se.Sel.Name = parts[0], parts[1]
			rw.used[parts[0]] = true
			counts[key]++
			rw.changed = true
			return true
		}
		if p.Mutex && id.Name == "sync" {
			switch se.Sel.Name {
			case "Mutex", "RWMutex":
				id.Name = "vsync"
				rw.used["vsync"] = true
				rw.changed = true
			}
		}
		return true
	})

	if !rw.changed {
		return
	}
	rw.fixImports()
	var buf bytes.Buffer
	if err := format.Node(&buf, fset, f); err != nil {
		die("format %s: %v", path, err)
	}
	if err := os.WriteFile(path, buf.Bytes(), 0o644); err != nil {
		die("%v", err)
	}
}

func (rw *rewriter) site(pos token.Pos) string {
	return fmt.Sprintf("%s:%d", rw.rel, rw.fset.Position(pos).Line)
}

func (rw *rewriter) yieldStmt(pos token.Pos, what string) ast.Stmt {
	rw.used["vsim"] = true
	rw.changed = true
	return &ast.ExprStmt{X: &ast.CallExpr{
		Fun:  &ast.SelectorExpr{X: ast.NewIdent("vsim"), Sel: ast.NewIdent("Yield")},
		Args: []ast.Expr{&ast.BasicLit{Kind: token.STRING, Value: strconv.Quote(rw.site(pos) + " " + what)}},
	}}
}

// syncKind reports whether stmt (not descending into nested blocks / func literals)
// performs a synchronisation operation that deserves a yield before it.
func syncKind(s ast.Stmt) string {
	kind := ""
	var visit func(n ast.Node) bool
	visit = func(n ast.Node) bool {
		if kind != "" {
			return false
		}
		switch x := n.(type) {
		case *ast.FuncLit, *ast.BlockStmt:
			return false
		case *ast.SendStmt:
			kind = "send"
		case *ast.UnaryExpr:
			if x.Op == token.ARROW {
				kind = "recv"
			}
		case *ast.CallExpr:
			if id, ok := x.Fun.(*ast.Ident); ok && id.Name == "close" && len(x.Args) == 1 {
				kind = "close"
			}
			if se, ok := x.Fun.(*ast.SelectorExpr); ok {
				switch se.Sel.Name {
				case "Lock", "RLock":
					if len(x.Args) == 0 {
						kind = strings.ToLower(se.Sel.Name)
					}
				case "Wait":
					if len(x.Args) == 0 {
						kind = "wait"
					}
				case "Submit":
					kind = "submit"
				}
				if id, ok := se.X.(*ast.Ident); ok && id.Name == "atomic" {
					kind = "atomic"
				}
			}
		}
		return kind == ""
	}
	switch x := s.(type) {
	case *ast.SelectStmt:
		return "select"
	case *ast.ExprStmt:
		ast.Inspect(x.X, visit)
	case *ast.AssignStmt:
		for _, e := range x.Rhs {
			ast.Inspect(e, visit)
		}
	case *ast.SendStmt:
		return "send"
	case *ast.DeferStmt:
		return "" // deferred unlocks run at return; the yield is placed by the lock itself
	case *ast.GoStmt:
		return ""
	case *ast.ReturnStmt:
		for _, e := range x.Results {
			ast.Inspect(e, visit)
		}
	case *ast.IfStmt:
		if x.Init != nil {
			if k := syncKind(x.Init); k != "" {
				return k
			}
		}
		ast.Inspect(x.Cond, visit)
	case *ast.DeclStmt:
		ast.Inspect(x.Decl, visit)
	case *ast.IncDecStmt:
		ast.Inspect(x.X, visit)
	}
	return kind
}

func (rw *rewriter) block(b *ast.BlockStmt, skip bool) {
	if b == nil {
		return
	}
	b.List = rw.stmts(b.List, skip)
}

func (rw *rewriter) stmts(list []ast.Stmt, skip bool) []ast.Stmt {
	var out []ast.Stmt
	for idx, s := range list {
		lastInBlock := idx == len(list)-1
		// recurse first
		switch x := s.(type) {
		case *ast.BlockStmt:
			rw.block(x, skip)
		case *ast.IfStmt:
			rw.ifStmt(x, skip)
		case *ast.ForStmt:
			rw.block(x.Body, skip)
		case *ast.RangeStmt:
			rw.block(x.Body, skip)
		case *ast.SwitchStmt:
			rw.caseBodies(x.Body, skip)
		case *ast.TypeSwitchStmt:
			rw.caseBodies(x.Body, skip)
		case *ast.SelectStmt:
			rw.commBodies(x, skip)
		case *ast.LabeledStmt:
			if inner, ok := x.Stmt.(*ast.ForStmt); ok {
				rw.block(inner.Body, skip)
			}
			if inner, ok := x.Stmt.(*ast.RangeStmt); ok {
				rw.block(inner.Body, skip)
			}
			if inner, ok := x.Stmt.(*ast.SelectStmt); ok {
				rw.commBodies(inner, skip)
			}
		}
		// function literals anywhere inside the statement
		ast.Inspect(s, func(n ast.Node) bool {
			if fl, ok := n.(*ast.FuncLit); ok {
				rw.block(fl.Body, skip)
				return false
			}
			return true
		})

		if gs, ok := s.(*ast.GoStmt); ok && rw.p.GoStmt {
			rw.used["vsim"] = true
			rw.changed = true
			call := &ast.CallExpr{
				Fun: &ast.SelectorExpr{X: ast.NewIdent("vsim"), Sel: ast.NewIdent("Go")},
				Args: []ast.Expr{
					&ast.BasicLit{Kind: token.STRING, Value: strconv.Quote(rw.site(gs.Pos()))},
				},
			}
			// evaluate arguments of the go statement eagerly, as `go f(a)` does
			var pre []ast.Stmt
			c := gs.Call
			if _, isLit := c.Fun.(*ast.FuncLit); isLit && len(c.Args) == 0 {
				call.Args = append(call.Args, c.Fun)
			} else {
				for i, a := range c.Args {
					tmp := fmt.Sprintf("vsimArg%d_%d", rw.fset.Position(gs.Pos()).Line, i)
					pre = append(pre, &ast.AssignStmt{Lhs: []ast.Expr{ast.NewIdent(tmp)}, Tok: token.DEFINE, Rhs: []ast.Expr{a}})
					c.Args[i] = ast.NewIdent(tmp)
				}
				call.Args = append(call.Args, &ast.FuncLit{
					Type: &ast.FuncType{Params: &ast.FieldList{}},
					Body: &ast.BlockStmt{List: []ast.Stmt{&ast.ExprStmt{X: c}}},
				})
			}
			out = append(out, pre...)
			out = append(out, &ast.ExprStmt{X: call})
			continue
		}

		post := false
		if rw.p.Yield && !skip {
			if k := syncKind(s); k != "" {
				out = append(out, rw.yieldStmt(s.Pos(), k))
				// after an operation that may have blocked, yield again, so that only the one
				// goroutine the scheduler resumed executes repository code
				switch k {
				case "recv", "select", "lock", "rlock", "wait", "send":
					switch s.(type) {
					case *ast.ReturnStmt, *ast.IfStmt, *ast.BranchStmt:
					default:
						post = true
					}
				}
			}
		}
		out = append(out, s)
		if post && !lastInBlock {
			// (after the last statement of a block nothing of the block runs any more, and a
			// statement after a terminating select would break "missing return" analysis)
			out = append(out, rw.yieldStmt(s.End(), "after"))
		}
	}
	return out
}

func (rw *rewriter) ifStmt(x *ast.IfStmt, skip bool) {
	rw.block(x.Body, skip)
	switch e := x.Else.(type) {
	case *ast.BlockStmt:
		rw.block(e, skip)
	case *ast.IfStmt:
		rw.ifStmt(e, skip)
	}
}

// commBodies rewrites the clauses of a select; a goroutine that wakes up in a communication
// clause parks again before it executes the clause body, so that only the goroutine the
// scheduler resumed runs repository code.
func (rw *rewriter) commBodies(x *ast.SelectStmt, skip bool) {
	for _, c := range x.Body.List {
		cc := c.(*ast.CommClause)
		cc.Body = rw.stmts(cc.Body, skip)
		if rw.p.Yield && !skip && cc.Comm != nil {
			cc.Body = append([]ast.Stmt{rw.yieldStmt(cc.Colon, "woke")}, cc.Body...)
		}
	}
}

func (rw *rewriter) caseBodies(b *ast.BlockStmt, skip bool) {
	for _, c := range b.List {
		cc := c.(*ast.CaseClause)
		cc.Body = rw.stmts(cc.Body, skip)
	}
}

func (rw *rewriter) fixImports() {
	f := rw.file
	// which package identifiers are still referenced?
	ref := map[string]bool{}
	ast.Inspect(f, func(n ast.Node) bool {
		if se, ok := n.(*ast.SelectorExpr); ok {
			if id, ok := se.X.(*ast.Ident); ok {
				ref[id.Name] = true
			}
		}
		return true
	})
	var imp *ast.GenDecl
	for _, d := range f.Decls {
		if gd, ok := d.(*ast.GenDecl); ok && gd.Tok == token.IMPORT {
			if imp == nil {
				imp = gd
			}
			var keep []ast.Spec
			for _, s := range gd.Specs {
				is := s.(*ast.ImportSpec)
				path, _ := strconv.Unquote(is.Path.Value)
				name := filepath.Base(path)
				if len(name) >= 2 && name[0] == 'v' && strings.Trim(name[1:], "0123456789") == "" {
					name = filepath.Base(filepath.Dir(path)) // module major-version suffix
				}
				if is.Name != nil {
					name = is.Name.Name
				}
				if name == "_" || name == "." {
					keep = append(keep, s)
					continue
				}
				// only drop imports that this rewrite may have made unused
				if !ref[name] && (rw.maybeUnused(name)) {
					continue
				}
				keep = append(keep, s)
			}
			gd.Specs = keep
		}
	}
	var names []string
	for n := range rw.used {
		names = append(names, n)
	}
	sort.Strings(names)
	for _, n := range names {
		path, ok := rw.p.Imports[n]
		if !ok {
			die("%s: no import path configured for %q", rw.rel, n)
		}
		already := false
		for _, is := range f.Imports {
			if p, _ := strconv.Unquote(is.Path.Value); p == path {
				already = true
			}
		}
		if already {
			continue
		}
		spec := &ast.ImportSpec{Name: ast.NewIdent(n), Path: &ast.BasicLit{Kind: token.STRING, Value: strconv.Quote(path)}}
		if imp == nil {
			imp = &ast.GenDecl{Tok: token.IMPORT, Lparen: 1, Rparen: 1}
			f.Decls = append([]ast.Decl{imp}, f.Decls...)
		}
		if !imp.Lparen.IsValid() {
			imp.Lparen = imp.Pos()
			imp.Rparen = imp.End()
		}
		imp.Specs = append(imp.Specs, spec)
		f.Imports = append(f.Imports, spec)
	}
}

func (rw *rewriter) maybeUnused(name string) bool {
	for k := range rw.p.Selectors {
		if strings.HasPrefix(k, name+".") {
			return true
		}
	}
	if rw.p.Mutex && name == "sync" {
		return true
	}
	return false
}
