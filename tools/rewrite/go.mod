module verif/tools/rewrite

go 1.21
