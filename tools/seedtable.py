#!/usr/bin/env python3
"""Print the seeded-defect table of DESIGN.md 9.5 from seeded/*/meta.json and README titles."""
import json, os, glob
rows = []
for d in sorted(glob.glob("/verif/seeded/*")):
    m = json.load(open(os.path.join(d, "meta.json")))
    title = ""
    rp = os.path.join(d, "README.md")
    if os.path.exists(rp):
        for ln in open(rp):
            if ln.startswith("#"):
                title = ln.lstrip("# ").strip()
                for sep in (" - ", " — ", " – "):
                    if sep in title:
                        title = title.split(sep, 1)[1]
                        break
                break
    caught, missed = [], []
    for chk, r in sorted(m["checks_run"].items()):
        if r["detected"]:
            caught.append("%s (`%s`)" % (chk, r["signatures"][0].split("/", 1)[1].replace("|", " vs ")))
        else:
            missed.append(chk)
    note = " *" if m.get("note") else ""
    rows.append("| %s%s | %s | %s | %s |" % (m["id"], note, title.replace("|", "/"), "; ".join(caught) or "-", ", ".join(missed) or "-"))
print("| seeded defect | what the change does | caught by (first signature) | run without a hit |")
print("|---|---|---|---|")
print("\n".join(rows))
