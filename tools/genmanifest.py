#!/usr/bin/env python3
"""Regenerate MANIFEST.json from checks.json (single source of truth for what is claimed)."""
import json, os
V = os.path.dirname(os.path.dirname(os.path.abspath(__file__)))
c = json.load(open(os.path.join(V, "checks.json")))
props = [json.loads(l)["id"] for l in open(os.path.join(V, "properties.jsonl"))]
checks = []
for pid in props:
    if pid not in c["checks"]:
        continue
    k = c["checks"][pid]
    checks.append({
        "property_id": pid,
        "quick_cmd": "python3 bin/check %s --tier quick" % pid,
        "thorough_cmd": "python3 bin/check %s --tier thorough" % pid,
        "evidence_file": "evidence/%s.json" % pid,
        "replay_cmd_template": "python3 bin/check %s --replay {path}" % pid,
        "engine": k["sim"],
        "level_claimed": {"category": k["level"], "text": k["level_text"], "design_ref": k.get("design_ref", "DESIGN.md section 3")},
        "level_note": k["level_note"],
        "technique": k.get("technique", "deterministic simulation with fault injection: seeded search over generated operation/fault/schedule tapes against real code, oracle = executable reference model"),
    })
na = []
for pid in props:
    if pid not in c["checks"]:
        na.append({"property_id": pid, "reason": c["not_applicable"].get(pid, "no check registered yet (work in progress in this technique)")})
m = {
    "version": 1,
    "setup_cmd": "python3 bin/check setup",
    "hooks": c["hooks"],
    "engines": [{"name": n, "path": "harness/" + (s.get("harness") or [n])[-1], "serves_properties": [p for p in props if p in c["checks"] and (c["checks"][p]["sim"] == n or any(str(cfg[0]).endswith("@" + n) for cfg in c["checks"][p].get("configs", [])))], "kind_free_text": s.get("about", "")} for n, s in c["sims"].items()],
    "checks": checks,
    "not_applicable": na,
    "notes": c.get("notes", ""),
}
json.dump(m, open(os.path.join(V, "MANIFEST.json"), "w"), indent=1)
print("claimed:", [x["property_id"] for x in checks], "not claimed:", [x["property_id"] for x in na])
