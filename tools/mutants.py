#!/usr/bin/env python3
"""Run checks against seeded defects: tools/mutants.py <root> <ID:m:check[,check...]> ...
Each defect is applied in its own worktree (<root>/<ID>-wt), the checks run with VERIF_REPO
pointing there (evidence/replays redirected), and the worktree is restored."""
import json, os, subprocess, sys, time
root = sys.argv[1]
res_path = os.path.join(root, "results.json")
results = json.load(open(res_path)) if os.path.exists(res_path) else {}
budget = os.environ.get("MUT_BUDGET", "45")
for spec in sys.argv[2:]:
    ID, m, checks = spec.split(":")
    wt = os.path.join(root, ID + "-wt"); patch = os.path.join(root, ID + "-out", m, "patch.diff")
    if not os.path.exists(patch):
        patch = os.path.join("/verif/seeded", "%s-%s" % (ID, m), "patch.diff")
    subprocess.run("git checkout -q -- . && git clean -fdq && git apply " + patch, shell=True, cwd=wt, check=True)
    for chk in checks.split(","):
        env = dict(os.environ, VERIF_REPO=wt, VERIF_SCRATCH="/dev/shm/verif-mut", VERIF_EVIDENCE_DIR="/dev/shm/verif-mut/evidence",
                   VERIF_REPLAY_DIR="/dev/shm/verif-mut/replays/%s-%s" % (ID, m))
        t0 = time.time()
        p = subprocess.run(["python3", "/verif/bin/check", chk, "--budget", budget], env=env, stdout=subprocess.PIPE, stderr=subprocess.PIPE)
        out = p.stdout.decode()
        sigs = [l.split("sig=")[1].split(" detail=")[0] for l in out.split("\n") if l.startswith("VIOLATION")]
        results["%s-%s/%s" % (ID, m, chk)] = {"exit": p.returncode, "violations": sigs, "wall_s": round(time.time() - t0, 1), "tail": p.stderr.decode()[-300:]}
        print(ID, m, chk, "exit", p.returncode, sigs[:3], flush=True)
        json.dump(results, open(res_path, "w"), indent=1)
    subprocess.run("git checkout -q -- . && git clean -fdq", shell=True, cwd=wt, check=True)
