#!/usr/bin/env python3
"""Generate the runtime determinism overlay (DESIGN.md 2.3).

Five one-line substitutions in three GOROOT files of the installed go1.26.8, each asserted
to match exactly once; the results are written next to an overlay JSON for `go build -overlay`.
GOROOT itself is never touched. Any mismatch -> exit 2 (no verdict)."""
import json, os, subprocess, sys

def main():
    out = sys.argv[1]
    extra = sys.argv[2] if len(sys.argv) > 2 else None
    goroot = subprocess.check_output(["go1.26.8", "env", "GOROOT"], env=dict(os.environ, GOTOOLCHAIN="local")).decode().strip()
    os.makedirs(out, exist_ok=True)
    subs = {
        "runtime/select.go": [
            ("\t\tj := cheaprandn(uint32(norder + 1))\n", "\t\tj := uint32(norder)\n"),
        ],
        "runtime/rand.go": [
            ("func maps_rand() uint64 {\n\treturn rand()\n}", "func maps_rand() uint64 {\n\treturn 0x9e3779b97f4a7c15\n}"),
            ("\tglobalRand.state.Init(*seed)\n", "\tclear(seed[:])\n\tseed[0] = 0x5d\n\tglobalRand.state.Init(*seed)\n"),
        ],
        "runtime/alg.go": [
            ("\t\thashkey[i] = uintptr(bootstrapRand())\n", "\t\thashkey[i] = uintptr(0x9e3779b97f4a7c15 * uint64(i+1))\n"),
            ("\t\tkey[i] = bootstrapRand()\n", "\t\tkey[i] = 0x9e3779b97f4a7c15 * uint64(i+1)\n"),
        ],
    }
    replace = {}
    for rel, pairs in subs.items():
        src = os.path.join(goroot, "src", rel)
        s = open(src).read()
        for old, new in pairs:
            if s.count(old) != 1:
                sys.stderr.write("rtoverlay: %s: expected exactly one occurrence of %r, found %d\n" % (rel, old, s.count(old)))
                sys.exit(2)
            s = s.replace(old, new)
        dst = os.path.join(out, rel.replace("/", "_") + ".txt")
        open(dst, "w").write(s)
        replace[src] = dst
    if extra:
        replace.update(json.load(open(extra)))
    json.dump({"Replace": replace}, open(os.path.join(out, "overlay.json"), "w"), indent=1)

if __name__ == "__main__":
    main()
