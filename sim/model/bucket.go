//go:build go1.23

// Package model holds the executable reference models. Nothing here imports repository code.
package model

import (
	"bytes"
	"sort"
	"strings"
)

// Bucket is one node of the tree-of-maps reference model of the wallet store.
type Bucket struct {
	KV   map[string][]byte
	Subs map[string]*Bucket
}

func NewBucket() *Bucket { return &Bucket{KV: map[string][]byte{}, Subs: map[string]*Bucket{}} }

func (b *Bucket) Clone() *Bucket {
	n := NewBucket()
	for k, v := range b.KV {
		n.KV[k] = append([]byte{}, v...)
	}
	for k, s := range b.Subs {
		n.Subs[k] = s.Clone()
	}
	return n
}

// Walk resolves a path of names below b.
func (b *Bucket) Walk(path []string) *Bucket {
	cur := b
	for _, p := range path {
		cur = cur.Subs[p]
		if cur == nil {
			return nil
		}
	}
	return cur
}

func (b *Bucket) Names() []string {
	out := make([]string, 0, len(b.Subs))
	for k := range b.Subs {
		out = append(out, k)
	}
	sort.Strings(out)
	return out
}

type KVEntry struct{ K, V []byte }

func (b *Bucket) Prefix(p []byte) []KVEntry {
	var out []KVEntry
	for k, v := range b.KV {
		if bytes.HasPrefix([]byte(k), p) {
			out = append(out, KVEntry{[]byte(k), v})
		}
	}
	sort.Slice(out, func(i, j int) bool { return bytes.Compare(out[i].K, out[j].K) < 0 })
	return out
}

// ValidBucketName is the documented naming rule of the store: non-empty, at most 256
// bytes, and free of the path separator.
func ValidBucketName(n string) bool {
	return len(n) > 0 && len(n) <= 256 && !strings.Contains(n, "_")
}

// Digest is a canonical rendering of the whole tree (used for state hashing and equality).
func (b *Bucket) Digest() string {
	var sb strings.Builder
	b.digest(&sb, "")
	return sb.String()
}

func (b *Bucket) digest(sb *strings.Builder, indent string) {
	keys := make([]string, 0, len(b.KV))
	for k := range b.KV {
		keys = append(keys, k)
	}
	sort.Strings(keys)
	for _, k := range keys {
		sb.WriteString(indent)
		sb.WriteString("k:")
		sb.WriteString(quote(k))
		sb.WriteString("=")
		sb.WriteString(quote(string(b.KV[k])))
		sb.WriteString("\n")
	}
	for _, n := range b.Names() {
		sb.WriteString(indent)
		sb.WriteString("b:")
		sb.WriteString(quote(n))
		sb.WriteString("\n")
		b.Subs[n].digest(sb, indent+"  ")
	}
}

func quote(s string) string {
	const hexd = "0123456789abcdef"
	var sb strings.Builder
	if len(s) > 24 {
		// long names are rendered by length and a short prefix
		sb.WriteString("<")
		sb.WriteString(itoa(len(s)))
		sb.WriteString(">")
		s = s[:8]
	}
	for i := 0; i < len(s); i++ {
		c := s[i]
		if c >= 0x21 && c < 0x7f && c != '\\' {
			sb.WriteByte(c)
		} else {
			sb.WriteString("\\x")
			sb.WriteByte(hexd[c>>4])
			sb.WriteByte(hexd[c&15])
		}
	}
	return sb.String()
}

func Quote(s string) string { return quote(s) }

func itoa(n int) string {
	if n == 0 {
		return "0"
	}
	var b []byte
	for n > 0 {
		b = append([]byte{byte('0' + n%10)}, b...)
		n /= 10
	}
	return string(b)
}
