//go:build go1.23

// Package vos is the simulated disk: an in-memory file tree with a durable /
// volatile split, numbered operations, tape-driven faults, process crash and
// power loss. Repository code reaches it through source rewriting
// (os.X -> vos.X) in the scratch copy, and goleveldb through the Storage adapter.
package vos

import (
	"io"
	"os"
	"path"
	"sort"
	"strings"
	"syscall"
	"time"
)

// write is one not-yet-synced modification of a file.
type write struct {
	off   int64
	data  []byte
	trunc bool  // truncate to size `off`
}

type inode struct {
	data    []byte  // current (page-cache) content
	durable []byte  // content as of the last Sync
	pending []write // writes since the last Sync, in issue order
	everSynced bool
}

// Disk is one simulated machine's storage.
type Disk struct {
	files map[string]*inode // current namespace
	dirs  map[string]bool
	// durable namespace: what survives a power loss when DirVolatile is set
	dfiles map[string]*inode
	ddirs  map[string]bool
	// DirVolatile: namespace changes (create/remove/rename/mkdir) need a directory sync to
	// become durable. When false they are durable immediately (journalled metadata).
	DirVolatile bool

	// Free-space budget in bytes (<0 = unlimited); reported by DiskUsage, enforced as ENOSPC.
	Capacity int64
	// Mounts: directories that are file systems of their own, with their own capacity
	// (DiskUsage of a path below a mount reports that mount).
	Mounts map[string]int64
	// AvailMem is what VirtualMemory reports as available.
	AvailMem uint64

	Epoch int // bumped by Crash/PowerLoss: handles of older epochs are dead
	NOps  int // numbered operations

	// Hook is consulted before every operation; it may return a fault action.
	Hook func(op *Op) Action
	// StepFn is called once per operation (simulated-step budget).
	StepFn func()
}

// Op describes the operation about to execute.
type Op struct {
	N    int    // global operation number on this disk
	Kind string // open create read write sync trunc remove rename mkdir stat readdir close
	Path string
	Off  int64
	Len  int
}

// Action is a fault decision.
type Action int

const (
	None Action = iota
	ErrIO          // fail the operation with EIO (nothing applied)
	ShortWrite     // apply a prefix of the write, return n < len with EIO
	NoSpace        // ENOSPC
	CrashBefore    // kill the simulated process before the operation
	CrashAfter     // kill the simulated process after the operation was applied
)

// CrashSignal is panicked to unwind the simulated process; the harness maps it to sim.Crash.
type CrashSignal struct{ Op Op }

// Cur is the disk repository code sees (one run at a time per OS process).
var Cur *Disk

func New() *Disk {
	d := &Disk{files: map[string]*inode{}, dirs: map[string]bool{"/": true},
		dfiles: map[string]*inode{}, ddirs: map[string]bool{"/": true}, Capacity: -1, AvailMem: 1 << 40}
	return d
}

func clean(p string) string {
	if p == "" {
		return "."
	}
	p = path.Clean(strings.ReplaceAll(p, "\\", "/"))
	if !strings.HasPrefix(p, "/") {
		p = "/cwd/" + p
		p = path.Clean(p)
	}
	return p
}

func pathErr(op, p string, e error) error { return &os.PathError{Op: op, Path: p, Err: e} }

func (d *Disk) event(kind, p string, off int64, n int) (Op, Action) {
	d.NOps++
	op := Op{N: d.NOps, Kind: kind, Path: p, Off: off, Len: n}
	if d.StepFn != nil {
		d.StepFn()
	}
	a := None
	if d.Hook != nil {
		a = d.Hook(&op)
	}
	if a == CrashBefore {
		panic(CrashSignal{op})
	}
	return op, a
}

func (d *Disk) after(op Op, a Action) {
	if a == CrashAfter {
		panic(CrashSignal{op})
	}
}

// Used returns the bytes currently allocated (sum of file sizes).
func (d *Disk) Used() int64 {
	var s int64
	for _, f := range d.files {
		s += int64(len(f.data))
	}
	return s
}

// ---------------------------------------------------------------------------------------------
// namespace

func (d *Disk) mkdirAll(p string) {
	for p != "/" && p != "." {
		d.dirs[p] = true
		if !d.DirVolatile {
			d.ddirs[p] = true
		}
		p = path.Dir(p)
	}
}

func (d *Disk) MkdirAll(p string, perm os.FileMode) error {
	p = clean(p)
	op, a := d.event("mkdir", p, 0, 0)
	if a == ErrIO {
		return pathErr("mkdir", p, syscall.EIO)
	}
	// a path component that is a file is an error
	for q := p; q != "/"; q = path.Dir(q) {
		if _, ok := d.files[q]; ok {
			return pathErr("mkdir", q, syscall.ENOTDIR)
		}
	}
	d.mkdirAll(p)
	d.after(op, a)
	return nil
}

type fileInfo struct {
	name string
	size int64
	dir  bool
}

func (fi fileInfo) Name() string { return fi.name }
func (fi fileInfo) Size() int64  { return fi.size }
func (fi fileInfo) Mode() os.FileMode {
	if fi.dir {
		return os.ModeDir | 0o755
	}
	return 0o644
}
func (fi fileInfo) ModTime() time.Time { return time.Unix(0, 0) }
func (fi fileInfo) IsDir() bool        { return fi.dir }
func (fi fileInfo) Sys() interface{}   { return nil }

func (d *Disk) Stat(p string) (os.FileInfo, error) {
	p = clean(p)
	_, a := d.event("stat", p, 0, 0)
	if a == ErrIO {
		return nil, pathErr("stat", p, syscall.EIO)
	}
	if f, ok := d.files[p]; ok {
		return fileInfo{name: path.Base(p), size: int64(len(f.data))}, nil
	}
	if d.dirs[p] {
		return fileInfo{name: path.Base(p), dir: true}, nil
	}
	return nil, pathErr("stat", p, syscall.ENOENT)
}

func (d *Disk) ReadDir(p string) ([]os.FileInfo, error) {
	p = clean(p)
	_, a := d.event("readdir", p, 0, 0)
	if a == ErrIO {
		return nil, pathErr("readdir", p, syscall.EIO)
	}
	if !d.dirs[p] {
		if _, ok := d.files[p]; ok {
			return nil, pathErr("readdir", p, syscall.ENOTDIR)
		}
		return nil, pathErr("open", p, syscall.ENOENT)
	}
	var out []os.FileInfo
	for q, f := range d.files {
		if path.Dir(q) == p {
			out = append(out, fileInfo{name: path.Base(q), size: int64(len(f.data))})
		}
	}
	for q := range d.dirs {
		if q != "/" && path.Dir(q) == p {
			out = append(out, fileInfo{name: path.Base(q), dir: true})
		}
	}
	sort.Slice(out, func(i, j int) bool { return out[i].Name() < out[j].Name() })
	return out, nil
}

func (d *Disk) Remove(p string) error {
	p = clean(p)
	op, a := d.event("remove", p, 0, 0)
	if a == ErrIO {
		return pathErr("remove", p, syscall.EIO)
	}
	if _, ok := d.files[p]; ok {
		delete(d.files, p)
		if !d.DirVolatile {
			delete(d.dfiles, p)
		}
		d.after(op, a)
		return nil
	}
	if d.dirs[p] {
		for q := range d.files {
			if path.Dir(q) == p {
				return pathErr("remove", p, syscall.ENOTEMPTY)
			}
		}
		for q := range d.dirs {
			if q != p && path.Dir(q) == p {
				return pathErr("remove", p, syscall.ENOTEMPTY)
			}
		}
		delete(d.dirs, p)
		if !d.DirVolatile {
			delete(d.ddirs, p)
		}
		d.after(op, a)
		return nil
	}
	return pathErr("remove", p, syscall.ENOENT)
}

func (d *Disk) Rename(from, to string) error {
	from, to = clean(from), clean(to)
	op, a := d.event("rename", from, 0, 0)
	if a == ErrIO {
		return &os.LinkError{Op: "rename", Old: from, New: to, Err: syscall.EIO}
	}
	f, ok := d.files[from]
	if !ok {
		return &os.LinkError{Op: "rename", Old: from, New: to, Err: syscall.ENOENT}
	}
	if !d.dirs[path.Dir(to)] {
		return &os.LinkError{Op: "rename", Old: from, New: to, Err: syscall.ENOENT}
	}
	if d.dirs[to] {
		return &os.LinkError{Op: "rename", Old: from, New: to, Err: syscall.EISDIR}
	}
	delete(d.files, from)
	d.files[to] = f
	if !d.DirVolatile {
		delete(d.dfiles, from)
		d.dfiles[to] = f
	}
	d.after(op, a)
	return nil
}

// SyncDir makes the namespace of directory p durable (only matters with DirVolatile).
func (d *Disk) SyncDir(p string) {
	p = clean(p)
	d.event("syncdir", p, 0, 0)
	for q := range d.dfiles {
		if path.Dir(q) == p {
			if _, ok := d.files[q]; !ok {
				delete(d.dfiles, q)
			}
		}
	}
	for q, f := range d.files {
		if path.Dir(q) == p {
			d.dfiles[q] = f
		}
	}
	for q := range d.dirs {
		if q == p || path.Dir(q) == p {
			d.ddirs[q] = true
			for r := q; r != "/"; r = path.Dir(r) {
				d.ddirs[r] = true
			}
		}
	}
	for q := range d.ddirs {
		if path.Dir(q) == p && !d.dirs[q] {
			delete(d.ddirs, q)
		}
	}
}

// ---------------------------------------------------------------------------------------------
// files

type File struct {
	d      *Disk
	ino    *inode
	name   string
	pos    int64
	epoch  int
	closed bool
	rdonly bool
	append bool
}

func (d *Disk) OpenFile(name string, flag int, perm os.FileMode) (*File, error) {
	p := clean(name)
	kind := "open"
	if flag&os.O_CREATE != 0 {
		kind = "create"
	}
	op, a := d.event(kind, p, 0, 0)
	if a == ErrIO {
		return nil, pathErr("open", p, syscall.EIO)
	}
	if d.dirs[p] {
		return nil, pathErr("open", p, syscall.EISDIR)
	}
	ino, ok := d.files[p]
	if !ok {
		if flag&os.O_CREATE == 0 {
			return nil, pathErr("open", p, syscall.ENOENT)
		}
		if !d.dirs[path.Dir(p)] {
			return nil, pathErr("open", p, syscall.ENOENT)
		}
		if a == NoSpace {
			return nil, pathErr("open", p, syscall.ENOSPC)
		}
		ino = &inode{}
		d.files[p] = ino
		if !d.DirVolatile {
			d.dfiles[p] = ino
		}
	} else if flag&os.O_EXCL != 0 && flag&os.O_CREATE != 0 {
		return nil, pathErr("open", p, syscall.EEXIST)
	}
	f := &File{d: d, ino: ino, name: name, epoch: d.Epoch}
	if flag&(os.O_WRONLY|os.O_RDWR) == 0 {
		f.rdonly = true
	}
	if flag&os.O_APPEND != 0 {
		f.append = true
	}
	if flag&os.O_TRUNC != 0 && !f.rdonly && len(ino.data) > 0 {
		ino.data = nil
		ino.pending = append(ino.pending, write{trunc: true, off: 0})
	}
	d.after(op, a)
	return f, nil
}

func (f *File) dead() bool { return f.closed || f.epoch != f.d.Epoch }

func (f *File) Name() string { return f.name }

func (f *File) errClosed(op string) error { return pathErr(op, f.name, os.ErrClosed) }

func (f *File) ReadAt(b []byte, off int64) (int, error) {
	if f.dead() {
		return 0, f.errClosed("read")
	}
	_, a := f.d.event("read", clean(f.name), off, len(b))
	if a == ErrIO {
		return 0, pathErr("read", f.name, syscall.EIO)
	}
	if off >= int64(len(f.ino.data)) {
		return 0, io.EOF
	}
	n := copy(b, f.ino.data[off:])
	if n < len(b) {
		return n, io.EOF
	}
	return n, nil
}

func (f *File) Read(b []byte) (int, error) {
	if f.dead() {
		return 0, f.errClosed("read")
	}
	_, a := f.d.event("read", clean(f.name), f.pos, len(b))
	if a == ErrIO {
		return 0, pathErr("read", f.name, syscall.EIO)
	}
	if f.pos >= int64(len(f.ino.data)) {
		return 0, io.EOF
	}
	n := copy(b, f.ino.data[f.pos:])
	f.pos += int64(n)
	return n, nil
}

func (f *File) Seek(off int64, whence int) (int64, error) {
	if f.dead() {
		return 0, f.errClosed("seek")
	}
	switch whence {
	case io.SeekStart:
		f.pos = off
	case io.SeekCurrent:
		f.pos += off
	case io.SeekEnd:
		f.pos = int64(len(f.ino.data)) + off
	}
	if f.pos < 0 {
		f.pos = 0
		return 0, pathErr("seek", f.name, syscall.EINVAL)
	}
	return f.pos, nil
}

func (f *File) writeAt(b []byte, off int64, kind string) (int, error) {
	if f.dead() {
		return 0, f.errClosed("write")
	}
	if f.rdonly {
		return 0, pathErr("write", f.name, syscall.EBADF)
	}
	op, a := f.d.event(kind, clean(f.name), off, len(b))
	switch a {
	case ErrIO:
		return 0, pathErr("write", f.name, syscall.EIO)
	case NoSpace:
		return 0, pathErr("write", f.name, syscall.ENOSPC)
	}
	n := len(b)
	if a == ShortWrite && n > 1 {
		n = n / 2
	}
	grow := off + int64(n) - int64(len(f.ino.data))
	if grow > 0 && f.d.Capacity >= 0 && f.d.Used()+grow > f.d.Capacity {
		return 0, pathErr("write", f.name, syscall.ENOSPC)
	}
	if grow > 0 {
		f.ino.data = append(f.ino.data, make([]byte, grow)...)
	}
	copy(f.ino.data[off:], b[:n])
	f.ino.pending = append(f.ino.pending, write{off: off, data: append([]byte{}, b[:n]...)})
	if a == ShortWrite && n < len(b) {
		return n, pathErr("write", f.name, syscall.EIO)
	}
	f.d.after(op, a)
	return n, nil
}

func (f *File) WriteAt(b []byte, off int64) (int, error) { return f.writeAt(b, off, "write") }

func (f *File) Write(b []byte) (int, error) {
	if f.append && !f.dead() {
		f.pos = int64(len(f.ino.data))
	}
	n, err := f.writeAt(b, f.pos, "write")
	f.pos += int64(n)
	return n, err
}

func (f *File) Truncate(size int64) error {
	if f.dead() {
		return f.errClosed("truncate")
	}
	op, a := f.d.event("trunc", clean(f.name), size, 0)
	if a == ErrIO {
		return pathErr("truncate", f.name, syscall.EIO)
	}
	if size < int64(len(f.ino.data)) {
		f.ino.data = f.ino.data[:size]
	} else {
		f.ino.data = append(f.ino.data, make([]byte, size-int64(len(f.ino.data)))...)
	}
	f.ino.pending = append(f.ino.pending, write{trunc: true, off: size})
	f.d.after(op, a)
	return nil
}

func (f *File) Sync() error {
	if f.dead() {
		return f.errClosed("sync")
	}
	op, a := f.d.event("sync", clean(f.name), 0, 0)
	if a == ErrIO {
		return pathErr("sync", f.name, syscall.EIO)
	}
	f.ino.durable = append(f.ino.durable[:0:0], f.ino.data...)
	f.ino.pending = nil
	f.ino.everSynced = true
	f.d.after(op, a)
	return nil
}

func (f *File) Close() error {
	if f.closed {
		return f.errClosed("close")
	}
	f.closed = true
	if f.epoch == f.d.Epoch {
		f.d.event("close", clean(f.name), 0, 0)
	}
	return nil
}

func (f *File) Stat() (os.FileInfo, error) {
	if f.dead() {
		return nil, f.errClosed("stat")
	}
	return fileInfo{name: path.Base(clean(f.name)), size: int64(len(f.ino.data))}, nil
}

// ---------------------------------------------------------------------------------------------
// crash and power loss

// Crash kills the simulated process: every issued write survives (the page cache
// outlives the process), every open handle dies.
func (d *Disk) Crash() { d.Epoch++ }

// PowerLoss keeps, per file, a chosen prefix of the not-yet-synced writes (the last
// surviving one possibly torn at 512-byte granularity); unsynced namespace changes are lost
// when DirVolatile is set. choose(label, n) is the tape.
func (d *Disk) PowerLoss(choose func(label string, n int) int) {
	d.Epoch++
	names := make([]string, 0, len(d.files))
	if d.DirVolatile {
		d.files = map[string]*inode{}
		for p, f := range d.dfiles {
			d.files[p] = f
		}
		d.dirs = map[string]bool{}
		for p := range d.ddirs {
			d.dirs[p] = true
		}
	}
	for p := range d.files {
		names = append(names, p)
	}
	sort.Strings(names)
	for _, p := range names {
		f := d.files[p]
		if len(f.pending) == 0 {
			continue
		}
		keep := choose("powerloss.keep", len(f.pending)+1)
		img := append([]byte{}, f.durable...)
		for i := 0; i < keep; i++ {
			w := f.pending[i]
			if w.trunc {
				if w.off < int64(len(img)) {
					img = img[:w.off]
				} else {
					img = append(img, make([]byte, w.off-int64(len(img)))...)
				}
				continue
			}
			data := w.data
			if i == keep-1 && len(data) > 512 && keep < len(f.pending)+1 {
				// the last surviving write may be torn
				sectors := (len(data) + 511) / 512
				k := choose("powerloss.torn", sectors+1)
				if k < sectors {
					data = data[:k*512]
				}
			}
			if grow := w.off + int64(len(data)) - int64(len(img)); grow > 0 {
				img = append(img, make([]byte, grow)...)
			}
			copy(img[w.off:], data)
		}
		f.data = img
		f.durable = append([]byte{}, img...)
		f.pending = nil
	}
}

// ---------------------------------------------------------------------------------------------
// inspection helpers for harnesses (no events, no faults)

func (d *Disk) Paths() []string {
	out := make([]string, 0, len(d.files))
	for p := range d.files {
		out = append(out, p)
	}
	sort.Strings(out)
	return out
}

func (d *Disk) Dirs() []string {
	out := make([]string, 0, len(d.dirs))
	for p := range d.dirs {
		out = append(out, p)
	}
	sort.Strings(out)
	return out
}

func (d *Disk) Content(p string) ([]byte, bool) {
	f, ok := d.files[clean(p)]
	if !ok {
		return nil, false
	}
	return f.data, true
}

// DurableContent is what would survive a power loss that drops every unsynced write.
func (d *Disk) DurableContent(p string) ([]byte, bool) {
	f, ok := d.files[clean(p)]
	if !ok {
		return nil, false
	}
	return f.durable, true
}

func (d *Disk) PendingWrites(p string) int {
	f, ok := d.files[clean(p)]
	if !ok {
		return 0
	}
	return len(f.pending)
}

// Put installs a file directly (fixture construction), durable.
func (d *Disk) Put(p string, data []byte) {
	p = clean(p)
	d.mkdirAll(path.Dir(p))
	for q := path.Dir(p); q != "/"; q = path.Dir(q) {
		d.ddirs[q] = true
	}
	ino := &inode{data: append([]byte{}, data...), durable: append([]byte{}, data...), everSynced: true}
	d.files[p] = ino
	d.dfiles[p] = ino
}

// Clone makes a deep copy (used to fork "uninterrupted" reference executions).
func (d *Disk) Clone() *Disk {
	n := New()
	n.DirVolatile, n.Capacity, n.AvailMem = d.DirVolatile, d.Capacity, d.AvailMem
	m := map[*inode]*inode{}
	cp := func(f *inode) *inode {
		if g, ok := m[f]; ok {
			return g
		}
		g := &inode{data: append([]byte{}, f.data...), durable: append([]byte{}, f.durable...), everSynced: f.everSynced}
		for _, w := range f.pending {
			g.pending = append(g.pending, write{off: w.off, data: append([]byte{}, w.data...), trunc: w.trunc})
		}
		m[f] = g
		return g
	}
	for p, f := range d.files {
		n.files[p] = cp(f)
	}
	for p, f := range d.dfiles {
		n.dfiles[p] = cp(f)
	}
	for p := range d.dirs {
		n.dirs[p] = true
	}
	for p := range d.ddirs {
		n.ddirs[p] = true
	}
	return n
}

// ---------------------------------------------------------------------------------------------
// package-level functions: the targets of the source rewrite (os.X -> vos.X)

func OpenFile(name string, flag int, perm os.FileMode) (*File, error) {
	return Cur.OpenFile(name, flag, perm)
}
func Open(name string) (*File, error)           { return Cur.OpenFile(name, os.O_RDONLY, 0) }
func Create(name string) (*File, error)         { return Cur.OpenFile(name, os.O_RDWR|os.O_CREATE|os.O_TRUNC, 0o666) }
func Stat(name string) (os.FileInfo, error)     { return Cur.Stat(name) }
func Remove(name string) error                  { return Cur.Remove(name) }
func Rename(from, to string) error              { return Cur.Rename(from, to) }
func MkdirAll(p string, perm os.FileMode) error { return Cur.MkdirAll(p, perm) }
func ReadDir(p string) ([]os.FileInfo, error)   { return Cur.ReadDir(p) }

// Abs replaces filepath.Abs: simulated paths are rooted at /cwd.
func Abs(p string) (string, error) { return clean(p), nil }

// UsageStat mirrors the fields of gopsutil's disk.UsageStat that the repository reads.
type UsageStat struct {
	Path        string
	Total       uint64
	Free        uint64
	Used        uint64
	UsedPercent float64
}

// UsedUnder returns the bytes allocated below directory dir.
func (d *Disk) UsedUnder(dir string) int64 {
	var s int64
	for p, f := range d.files {
		if strings.HasPrefix(p, dir+"/") {
			s += int64(len(f.data))
		}
	}
	return s
}

func DiskUsage(p string) (*UsageStat, error) {
	d := Cur
	_, a := d.event("statfs", clean(p), 0, 0)
	if a == ErrIO {
		return nil, pathErr("statfs", p, syscall.EIO)
	}
	cp := clean(p)
	best := ""
	for m := range d.Mounts {
		if (cp == m || strings.HasPrefix(cp, m+"/")) && len(m) > len(best) {
			best = m
		}
	}
	if best != "" {
		used := uint64(d.UsedUnder(best))
		c := d.Mounts[best]
		if c < 0 {
			return &UsageStat{Path: p, Total: 1 << 50, Free: 1<<50 - used, Used: used}, nil
		}
		free := uint64(0)
		if uint64(c) > used {
			free = uint64(c) - used
		}
		return &UsageStat{Path: p, Total: uint64(c), Free: free, Used: used}, nil
	}
	used := uint64(d.Used())
	if d.Capacity < 0 {
		return &UsageStat{Path: p, Total: 1 << 50, Free: 1<<50 - used, Used: used}, nil
	}
	free := uint64(0)
	if uint64(d.Capacity) > used {
		free = uint64(d.Capacity) - used
	}
	return &UsageStat{Path: p, Total: uint64(d.Capacity), Free: free, Used: used}, nil
}

// VirtualMemoryStat mirrors the fields of gopsutil's mem.VirtualMemoryStat that the repository reads.
type VirtualMemoryStat struct {
	Total     uint64
	Available uint64
}

func VirtualMemory() (*VirtualMemoryStat, error) {
	return &VirtualMemoryStat{Total: 1 << 40, Available: Cur.AvailMem}, nil
}
