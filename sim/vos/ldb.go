//go:build go1.23

package vos

import (
	"errors"
	"fmt"
	"os"
	"path"
	"sort"
	"strings"
	"sync"

	"github.com/syndtr/goleveldb/leveldb"
	"github.com/syndtr/goleveldb/leveldb/opt"
	"github.com/syndtr/goleveldb/leveldb/storage"
)

// Storage is a goleveldb storage.Storage over a directory of the simulated disk.
// File names are the ones goleveldb's own file storage uses, so a byte scan of the
// disk sees what a real directory would hold.
type Storage struct {
	mu     sync.Mutex
	d      *Disk
	dir    string
	epoch  int
	locked bool
	closed bool
}

var lockTable = map[*Disk]map[string]*Storage{}

func NewStorage(d *Disk, dir string) *Storage {
	return &Storage{d: d, dir: clean(dir), epoch: d.Epoch}
}

func (s *Storage) dead() error {
	if s.closed {
		return storage.ErrClosed
	}
	if s.epoch != s.d.Epoch {
		return errors.New("vos: storage of a dead process")
	}
	return nil
}

type locker struct{ s *Storage }

func (l locker) Unlock() {
	l.s.mu.Lock()
	defer l.s.mu.Unlock()
	l.s.locked = false
	if m := lockTable[l.s.d]; m != nil && m[l.s.dir] == l.s {
		delete(m, l.s.dir)
	}
}

func (s *Storage) Lock() (storage.Locker, error) {
	s.mu.Lock()
	defer s.mu.Unlock()
	if err := s.dead(); err != nil {
		return nil, err
	}
	m := lockTable[s.d]
	if m == nil {
		m = map[string]*Storage{}
		lockTable[s.d] = m
	}
	if o := m[s.dir]; o != nil && o != s && o.dead() == nil {
		return nil, storage.ErrLocked
	}
	m[s.dir] = s
	s.locked = true
	return locker{s}, nil
}

func (s *Storage) Log(str string) {}

func (s *Storage) p(name string) string { return path.Join(s.dir, name) }

func parseName(name string) (storage.FileDesc, bool) {
	var fd storage.FileDesc
	if strings.HasPrefix(name, "MANIFEST-") {
		var n int64
		if _, err := fmt.Sscanf(name, "MANIFEST-%d", &n); err != nil {
			return fd, false
		}
		return storage.FileDesc{Type: storage.TypeManifest, Num: n}, true
	}
	var n int64
	var ext string
	if _, err := fmt.Sscanf(name, "%d.%s", &n, &ext); err != nil {
		return fd, false
	}
	switch ext {
	case "log":
		return storage.FileDesc{Type: storage.TypeJournal, Num: n}, true
	case "ldb", "sst":
		return storage.FileDesc{Type: storage.TypeTable, Num: n}, true
	case "tmp":
		return storage.FileDesc{Type: storage.TypeTemp, Num: n}, true
	}
	return fd, false
}

func (s *Storage) SetMeta(fd storage.FileDesc) error {
	s.mu.Lock()
	defer s.mu.Unlock()
	if err := s.dead(); err != nil {
		return err
	}
	if !storage.FileDescOk(fd) {
		return storage.ErrInvalidFile
	}
	// like goleveldb's file storage: write CURRENT.<num>, sync, rename over CURRENT, sync dir
	tmp := s.p(fmt.Sprintf("CURRENT.%d", fd.Num))
	f, err := s.d.OpenFile(tmp, os.O_RDWR|os.O_CREATE|os.O_TRUNC, 0o644)
	if err != nil {
		return err
	}
	if _, err = f.Write([]byte(fd.String() + "\n")); err != nil {
		f.Close()
		return err
	}
	if err = f.Sync(); err != nil {
		f.Close()
		return err
	}
	f.Close()
	if err = s.d.Rename(tmp, s.p("CURRENT")); err != nil {
		return err
	}
	s.d.SyncDir(s.dir)
	return nil
}

func (s *Storage) GetMeta() (storage.FileDesc, error) {
	s.mu.Lock()
	defer s.mu.Unlock()
	if err := s.dead(); err != nil {
		return storage.FileDesc{}, err
	}
	b, ok := s.d.Content(s.p("CURRENT"))
	if !ok {
		return storage.FileDesc{}, os.ErrNotExist
	}
	s.d.event("read", s.p("CURRENT"), 0, len(b))
	name := strings.TrimSuffix(string(b), "\n")
	fd, ok := parseName(name)
	if !ok || fd.Type != storage.TypeManifest || !strings.HasSuffix(string(b), "\n") {
		return storage.FileDesc{}, &storage.ErrCorrupted{Err: errors.New("leveldb/storage: corrupted or incomplete CURRENT file")}
	}
	if _, ok := s.d.Content(s.p(fd.String())); !ok {
		return storage.FileDesc{}, os.ErrNotExist
	}
	return fd, nil
}

func (s *Storage) List(ft storage.FileType) ([]storage.FileDesc, error) {
	s.mu.Lock()
	defer s.mu.Unlock()
	if err := s.dead(); err != nil {
		return nil, err
	}
	var out []storage.FileDesc
	for _, p := range s.d.Paths() {
		if path.Dir(p) != s.dir {
			continue
		}
		if fd, ok := parseName(path.Base(p)); ok && fd.Type&ft != 0 {
			out = append(out, fd)
		}
	}
	sort.Slice(out, func(i, j int) bool {
		if out[i].Type != out[j].Type {
			return out[i].Type < out[j].Type
		}
		return out[i].Num < out[j].Num
	})
	return out, nil
}

type sfile struct {
	s *Storage
	f *File
}

func (w sfile) Read(b []byte) (int, error) {
	w.s.mu.Lock()
	defer w.s.mu.Unlock()
	if err := w.s.dead(); err != nil {
		return 0, err
	}
	return w.f.Read(b)
}
func (w sfile) ReadAt(b []byte, off int64) (int, error) {
	w.s.mu.Lock()
	defer w.s.mu.Unlock()
	if err := w.s.dead(); err != nil {
		return 0, err
	}
	return w.f.ReadAt(b, off)
}
func (w sfile) Seek(off int64, whence int) (int64, error) {
	w.s.mu.Lock()
	defer w.s.mu.Unlock()
	return w.f.Seek(off, whence)
}
func (w sfile) Write(b []byte) (int, error) {
	w.s.mu.Lock()
	defer w.s.mu.Unlock()
	if err := w.s.dead(); err != nil {
		return 0, err
	}
	return w.f.Write(b)
}
func (w sfile) Sync() error {
	w.s.mu.Lock()
	defer w.s.mu.Unlock()
	if err := w.s.dead(); err != nil {
		return err
	}
	if err := w.f.Sync(); err != nil {
		return err
	}
	// goleveldb's file storage syncs the directory after syncing a manifest
	if strings.HasPrefix(path.Base(w.f.name), "MANIFEST-") {
		w.s.d.SyncDir(w.s.dir)
	}
	return nil
}
func (w sfile) Close() error {
	w.s.mu.Lock()
	defer w.s.mu.Unlock()
	return w.f.Close()
}

func (s *Storage) Open(fd storage.FileDesc) (storage.Reader, error) {
	s.mu.Lock()
	defer s.mu.Unlock()
	if err := s.dead(); err != nil {
		return nil, err
	}
	if !storage.FileDescOk(fd) {
		return nil, storage.ErrInvalidFile
	}
	f, err := s.d.OpenFile(s.p(fd.String()), os.O_RDONLY, 0)
	if err != nil {
		if os.IsNotExist(err) {
			return nil, os.ErrNotExist
		}
		return nil, err
	}
	return sfile{s, f}, nil
}

func (s *Storage) Create(fd storage.FileDesc) (storage.Writer, error) {
	s.mu.Lock()
	defer s.mu.Unlock()
	if err := s.dead(); err != nil {
		return nil, err
	}
	if !storage.FileDescOk(fd) {
		return nil, storage.ErrInvalidFile
	}
	f, err := s.d.OpenFile(s.p(fd.String()), os.O_RDWR|os.O_CREATE|os.O_TRUNC, 0o644)
	if err != nil {
		return nil, err
	}
	return sfile{s, f}, nil
}

func (s *Storage) Remove(fd storage.FileDesc) error {
	s.mu.Lock()
	defer s.mu.Unlock()
	if err := s.dead(); err != nil {
		return err
	}
	err := s.d.Remove(s.p(fd.String()))
	if err != nil && os.IsNotExist(err) {
		return os.ErrNotExist
	}
	return err
}

func (s *Storage) Rename(oldfd, newfd storage.FileDesc) error {
	s.mu.Lock()
	defer s.mu.Unlock()
	if err := s.dead(); err != nil {
		return err
	}
	return s.d.Rename(s.p(oldfd.String()), s.p(newfd.String()))
}

func (s *Storage) Close() error {
	s.mu.Lock()
	defer s.mu.Unlock()
	if s.closed {
		return storage.ErrClosed
	}
	s.closed = true
	if m := lockTable[s.d]; m != nil && m[s.dir] == s {
		delete(m, s.dir)
	}
	return nil
}

// Knobs are the per-run size knobs applied to leveldb options (pure performance parameters).
type LevelKnobs struct {
	WriteBuffer int
	BlockCache  int
}

var Knobs = LevelKnobs{WriteBuffer: 1 << 20, BlockCache: 64 << 10}

// OpenLevelDB is the rewrite target of leveldb.OpenFile(path, opts): the repository's own
// options are passed through, except pure size knobs and background table compaction
// (disabled so that the physical file set is a deterministic function of the operations).
func OpenLevelDB(p string, o *opt.Options) (*leveldb.DB, error) {
	d := Cur
	dir := clean(p)
	oo := *o
	if Knobs.WriteBuffer > 0 {
		oo.WriteBuffer = Knobs.WriteBuffer
	}
	if Knobs.BlockCache > 0 {
		oo.BlockCacheCapacity = Knobs.BlockCache
	}
	oo.CompactionL0Trigger = 1 << 20
	oo.WriteL0SlowdownTrigger = 1 << 21
	oo.WriteL0PauseTrigger = 1 << 22
	oo.DisableSeeksCompaction = true
	if !d.dirs[dir] {
		if oo.ErrorIfMissing {
			return nil, os.ErrNotExist
		}
		d.mkdirAll(dir)
	}
	st := NewStorage(d, dir)
	db, err := leveldb.Open(st, &oo)
	if err != nil {
		st.Close()
		return nil, err
	}
	return db, nil
}
