//go:build go1.25

// Package simnet is the simulated network (DESIGN.md 2.8): net.Conn pairs that live inside a
// synctest bubble. Reads block durably; delivery takes fake time; every fault is tape-driven:
// latency and jitter, chunking, stalls, a cut after any byte offset, half-open silence.
// TCP neither reorders nor duplicates inside a connection, so neither is injected here.
package simnet

import (
	"context"
	"errors"
	"io"
	"net"
	"os"
	"sync"
	"time"

	"verif/sim/vsim"
)

// Faults of one direction of a connection.
type Faults struct {
	Latency time.Duration
	Jitter  func() time.Duration // extra delay per chunk (tape)
	Chunk   func(n int) int      // how many of n pending bytes travel together (tape); nil = all
	// CutAfter: after this many bytes were delivered the connection breaks (<0 = never)
	CutAfter int
	// SilentAfter: after this many bytes nothing is delivered any more, without any error
	// (half-open connection; <0 = never)
	SilentAfter int
	// StallAt/StallFor: once StallAt bytes were delivered, delivery pauses for StallFor
	StallAt  int
	StallFor time.Duration
}

type addr string

func (a addr) Network() string { return "sim" }
func (a addr) String() string  { return string(a) }

type segment struct {
	at   time.Time
	data []byte
}

// half is one direction: writer side queues, a pump delivers into the reader's buffer.
type half struct {
	mu        sync.Mutex
	f         Faults
	queue     []segment
	buf       []byte
	delivered int
	wake      chan struct{} // pump wake-up
	readable  chan struct{} // reader wake-up
	rdErr     error         // what the reader sees once buf is drained
	wrErr     error         // what the writer sees
	closed    bool
	lastAt    time.Time
	stalled   bool
	silent    bool
	// Stats
	Chunks                             int
	cutFired, silentFired, stallFired bool
	flog                              []FaultEvent
}

// FaultEvent is one fault that took effect on a connection.
type FaultEvent struct {
	At   time.Time
	Conn string
	What string
}

func newHalf(f Faults) *half {
	return &half{f: f, wake: make(chan struct{}, 1), readable: make(chan struct{}, 1)}
}

func poke(ch chan struct{}) {
	select {
	case ch <- struct{}{}:
	default:
	}
}

// pump runs inside the bubble (plain goroutine: the network is environment, not scheduled code).
func (h *half) pump(onCut func()) {
	for {
		h.mu.Lock()
		if h.closed {
			h.mu.Unlock()
			return
		}
		if len(h.queue) == 0 {
			h.mu.Unlock()
			<-h.wake
			continue
		}
		seg := h.queue[0]
		h.mu.Unlock()
		if d := time.Until(seg.at); d > 0 {
			time.Sleep(d)
		}
		h.mu.Lock()
		if h.closed {
			h.mu.Unlock()
			return
		}
		if h.f.StallFor > 0 && !h.stalled && h.delivered >= h.f.StallAt {
			h.stalled = true
			h.stallFired = true
			h.flog = append(h.flog, FaultEvent{At: time.Now(), What: "delivery stalls for " + h.f.StallFor.String()})
			h.mu.Unlock()
			time.Sleep(h.f.StallFor)
			continue
		}
		h.queue = h.queue[1:]
		data := seg.data
		cut := false
		if h.f.SilentAfter >= 0 && h.delivered+len(data) > h.f.SilentAfter {
			data = data[:max0(h.f.SilentAfter-h.delivered)]
			h.silent = true
			h.silentFired = true
			h.flog = append(h.flog, FaultEvent{At: time.Now(), What: "goes silent (half-open)"})
		}
		if h.f.CutAfter >= 0 && h.delivered+len(data) >= h.f.CutAfter {
			data = data[:max0(h.f.CutAfter-h.delivered)]
			cut = true
			h.cutFired = true
			h.flog = append(h.flog, FaultEvent{At: time.Now(), What: "breaks"})
		}
		h.buf = append(h.buf, data...)
		h.delivered += len(data)
		h.Chunks++
		if h.silent {
			h.queue = nil
		}
		h.mu.Unlock()
		poke(h.readable)
		if cut {
			onCut()
			return
		}
		if h.silent {
			// swallow everything from now on
			for {
				h.mu.Lock()
				h.queue = nil
				c := h.closed
				h.mu.Unlock()
				if c {
					return
				}
				<-h.wake
			}
		}
	}
}

func max0(x int) int {
	if x < 0 {
		return 0
	}
	return x
}

// Conn is one end of a simulated connection.
type Conn struct {
	name      string
	peer      string
	in, out   *half
	closeOnce sync.Once
	closeBoth func(err error)
	rdl       time.Time
}

// Pipe creates a connected pair; ab are the faults of the a->b direction, ba of b->a.
// Must be called inside the bubble.
func Pipe(nameA, nameB string, ab, ba Faults) (*Conn, *Conn) {
	hab, hba := newHalf(ab), newHalf(ba)
	var once sync.Once
	closeBoth := func(err error) {
		once.Do(func() {
			for _, h := range []*half{hab, hba} {
				h.mu.Lock()
				h.closed = true
				if h.rdErr == nil {
					h.rdErr = err
				}
				h.wrErr = io.ErrClosedPipe
				h.mu.Unlock()
				poke(h.wake)
				poke(h.readable)
			}
		})
	}
	cut := func() { closeBoth(errors.New("simnet: connection reset by peer")) }
	go hab.pump(cut)
	go hba.pump(cut)
	a := &Conn{name: nameA, peer: nameB, in: hba, out: hab, closeBoth: closeBoth}
	b := &Conn{name: nameB, peer: nameA, in: hab, out: hba, closeBoth: closeBoth}
	return a, b
}

func (c *Conn) Read(p []byte) (int, error) {
	for {
		c.in.mu.Lock()
		if len(c.in.buf) > 0 {
			n := copy(p, c.in.buf)
			c.in.buf = c.in.buf[n:]
			more := len(c.in.buf) > 0
			c.in.mu.Unlock()
			if more {
				poke(c.in.readable)
			}
			return n, nil
		}
		if c.in.closed {
			err := c.in.rdErr
			c.in.mu.Unlock()
			if err == nil {
				err = io.EOF
			}
			return 0, err
		}
		c.in.mu.Unlock()
		if !c.rdl.IsZero() {
			d := time.Until(c.rdl)
			if d <= 0 {
				return 0, os.ErrDeadlineExceeded
			}
			t := time.NewTimer(d)
			select {
			case <-c.in.readable:
				t.Stop()
			case <-t.C:
				vsim.Yield("simnet read deadline")
				return 0, os.ErrDeadlineExceeded
			}
			vsim.Yield("simnet read woke")
			continue
		}
		<-c.in.readable
		// a scheduled goroutine that the network woke parks again before it runs on
		vsim.Yield("simnet read woke")
	}
}

func (c *Conn) Write(p []byte) (int, error) {
	h := c.out
	h.mu.Lock()
	if h.closed {
		err := h.wrErr
		h.mu.Unlock()
		if err == nil {
			err = io.ErrClosedPipe
		}
		return 0, err
	}
	rest := append([]byte{}, p...)
	for len(rest) > 0 {
		n := len(rest)
		if h.f.Chunk != nil {
			if k := h.f.Chunk(n); k >= 1 && k < n {
				n = k
			}
		}
		at := time.Now().Add(h.f.Latency)
		if h.f.Jitter != nil {
			at = at.Add(h.f.Jitter())
		}
		if at.Before(h.lastAt) {
			at = h.lastAt // a stream never reorders
		}
		h.lastAt = at
		h.queue = append(h.queue, segment{at: at, data: rest[:n]})
		rest = rest[n:]
	}
	h.mu.Unlock()
	poke(h.wake)
	return len(p), nil
}

// Close closes the connection for both ends (the peer reads EOF after draining).
func (c *Conn) Close() error {
	c.closeBoth(nil)
	return nil
}

// Cut breaks the connection abruptly (both ends see an error).
func (c *Conn) Cut() { c.closeBoth(errors.New("simnet: connection reset")) }

func (c *Conn) LocalAddr() net.Addr                { return addr(c.name) }
func (c *Conn) RemoteAddr() net.Addr               { return addr(c.peer) }
func (c *Conn) SetDeadline(t time.Time) error      { c.rdl = t; return nil }
func (c *Conn) SetReadDeadline(t time.Time) error  { c.rdl = t; return nil }
func (c *Conn) SetWriteDeadline(t time.Time) error { return nil }

// Fired reports which of the configured faults of this connection (either direction) took effect.
func (c *Conn) Fired() (cut, silent, stall int) {
	for _, h := range []*half{c.in, c.out} {
		h.mu.Lock()
		if h.cutFired {
			cut++
		}
		if h.silentFired {
			silent++
		}
		if h.stallFired {
			stall++
		}
		h.mu.Unlock()
	}
	return
}

// Disarm removes the faults of this connection that have not taken effect yet (the fault phase
// of a run is over); what already happened - a silent direction, a broken connection - stays.
func (c *Conn) Disarm() {
	for _, h := range []*half{c.in, c.out} {
		h.mu.Lock()
		if !h.cutFired {
			h.f.CutAfter = -1
		}
		if !h.silentFired {
			h.f.SilentAfter = -1
		}
		if !h.stallFired {
			h.f.StallFor = 0
		}
		h.mu.Unlock()
	}
}

// FaultLog lists the faults that took effect, per direction.
func (c *Conn) FaultLog() []FaultEvent {
	var out []FaultEvent
	for i, h := range []*half{c.out, c.in} {
		dir := c.name + " -> " + c.peer
		if i == 1 {
			dir = c.peer + " -> " + c.name
		}
		h.mu.Lock()
		for _, e := range h.flog {
			e.Conn = dir
			out = append(out, e)
		}
		h.mu.Unlock()
	}
	return out
}

// Name is the local address, Peer the remote one.
func (c *Conn) Name() string { return c.name }
func (c *Conn) Peer() string { return c.peer }

// Closed reports whether the connection is gone.
func (c *Conn) Closed() bool {
	c.in.mu.Lock()
	defer c.in.mu.Unlock()
	return c.in.closed
}

// Delivered reports how many bytes reached this end, in how many chunks.
func (c *Conn) Delivered() (int, int) {
	c.in.mu.Lock()
	defer c.in.mu.Unlock()
	return c.in.delivered, c.in.Chunks
}

// ---------------------------------------------------------------------------------------------
// addresses, listeners and dialling: what rewritten code gets instead of net.Listen / net.Dialer

type ctxKey int

// NodeKey is the context key under which a dialling node's name travels (context.WithValue);
// the name becomes the connection's local address, so that the harness can tell who is who.
const NodeKey ctxKey = 1

// Net is one simulated network. Must be created inside the bubble.
type Net struct {
	mu        sync.Mutex
	listeners map[string]*Listener
	// FaultsFor decides the faults of a new connection (client->server, server->client).
	FaultsFor func(from, to string) (Faults, Faults)
	// DialDelay is the simulated time one connection attempt takes.
	DialDelay func() time.Duration
	// Unreachable reports whether from cannot reach to right now (partition): the attempt times out.
	Unreachable func(from, to string) bool
	Conns       []*Conn // client ends, in dial order
	dials       int
	// Stats
	Dials, Refused, TimedOut, Accepted int
}

// Cur is the network rewritten code dials into and listens on.
var Cur *Net

func NewNet() *Net { return &Net{listeners: map[string]*Listener{}} }

type Listener struct {
	n      *Net
	a      string
	q      chan *Conn
	closed chan struct{}
	once   sync.Once
}

// Listen replaces net.Listen.
func Listen(network, address string) (net.Listener, error) {
	n := Cur
	n.mu.Lock()
	defer n.mu.Unlock()
	if _, ok := n.listeners[address]; ok {
		return nil, &net.OpError{Op: "listen", Net: network, Addr: addr(address), Err: errors.New("address already in use")}
	}
	l := &Listener{n: n, a: address, q: make(chan *Conn, 256), closed: make(chan struct{})}
	n.listeners[address] = l
	return l, nil
}

func (l *Listener) Accept() (net.Conn, error) {
	select {
	case <-l.closed:
		return nil, &net.OpError{Op: "accept", Net: "sim", Addr: addr(l.a), Err: net.ErrClosed}
	default:
	}
	select {
	case c := <-l.q:
		vsim.Yield("simnet accept woke")
		return c, nil
	case <-l.closed:
		vsim.Yield("simnet accept woke")
		return nil, &net.OpError{Op: "accept", Net: "sim", Addr: addr(l.a), Err: net.ErrClosed}
	}
}

func (l *Listener) Close() error {
	l.once.Do(func() {
		l.n.mu.Lock()
		delete(l.n.listeners, l.a)
		l.n.mu.Unlock()
		close(l.closed)
		// connections that were queued but never accepted are reset
		for {
			select {
			case c := <-l.q:
				c.Cut()
			default:
				return
			}
		}
	})
	return nil
}

func (l *Listener) Addr() net.Addr { return addr(l.a) }

// Dialer replaces net.Dialer (only the field and method the repository uses).
type Dialer struct {
	Timeout time.Duration
}

func (d Dialer) DialContext(ctx context.Context, network, address string) (net.Conn, error) {
	n := Cur
	from := "?"
	if v, ok := ctx.Value(NodeKey).(string); ok {
		from = v
	}
	n.mu.Lock()
	n.dials++
	n.Dials++
	id := n.dials
	delay := 10 * time.Millisecond
	if n.DialDelay != nil {
		delay = n.DialDelay()
	}
	unreachable := n.Unreachable != nil && n.Unreachable(from, address)
	n.mu.Unlock()
	fail := func(err error) (net.Conn, error) {
		return nil, &net.OpError{Op: "dial", Net: network, Addr: addr(address), Err: err}
	}
	if unreachable {
		to := d.Timeout
		if to <= 0 {
			to = 2 * time.Minute
		}
		t := time.NewTimer(to)
		defer t.Stop()
		select {
		case <-t.C:
			vsim.Yield("simnet dial woke")
			n.mu.Lock()
			n.TimedOut++
			n.mu.Unlock()
			return fail(os.ErrDeadlineExceeded)
		case <-ctx.Done():
			vsim.Yield("simnet dial woke")
			return fail(ctx.Err())
		}
	}
	t := time.NewTimer(delay)
	defer t.Stop()
	select {
	case <-t.C:
	case <-ctx.Done():
		vsim.Yield("simnet dial woke")
		return fail(ctx.Err())
	}
	vsim.Yield("simnet dial woke")
	n.mu.Lock()
	l := n.listeners[address]
	if l == nil {
		n.Refused++
		n.mu.Unlock()
		return fail(errors.New("connection refused"))
	}
	var ab, ba Faults
	ab.CutAfter, ab.SilentAfter, ba.CutAfter, ba.SilentAfter = -1, -1, -1, -1
	local := from + "#" + itoa(id)
	if n.FaultsFor != nil {
		ab, ba = n.FaultsFor(local, address)
	}
	c, s := Pipe(local, address, ab, ba)
	n.Conns = append(n.Conns, c)
	n.Accepted++
	n.mu.Unlock()
	select {
	case l.q <- s:
	case <-l.closed:
		c.Cut()
		return fail(errors.New("connection refused"))
	}
	return c, nil
}

func itoa(i int) string {
	if i == 0 {
		return "0"
	}
	var b []byte
	for i > 0 {
		b = append([]byte{byte('0' + i%10)}, b...)
		i /= 10
	}
	return string(b)
}
