//go:build go1.23 && linux

package vtok

import (
	"sync"
	"testing"
)

var shared, guarded int
var mu sync.Mutex

// Run with -race: the unguarded counter must be reported, the guarded one must not.
func TestHandOffInvisible(t *testing.T) {
	k := 0
	e := &Engine{Choose: func(string, int) int { k++; return k % 2 }}
	Cur = e
	f := func() {
		for i := 0; i < 3; i++ {
			e.Yield("a")
			if testing.Verbose() {
				shared++
			}
			e.Yield("b")
			mu.Lock()
			guarded++
			mu.Unlock()
		}
	}
	e.Run([]func(){f, f})
	Cur = nil
	if guarded != 6 {
		t.Fatalf("guarded=%d", guarded)
	}
	t.Logf("steps=%d preempt=%d shared=%d", e.Steps, e.Preempt, shared)
}
