//go:build go1.23 && linux

// Package vtok is the token engine (DESIGN.md 2.4): client goroutines of a -race build run
// strictly one at a time; the tape decides at every yield point who runs next. The hand-off is a
// raw futex system call from //go:norace code over fixed arrays, so it creates no
// happens-before edge for the race detector: two accesses that are sequential in real time but
// not ordered by the program's own synchronisation are still reported, deterministically, and
// accesses ordered by the program's own locks are silent.
package vtok

import (
	"runtime"
	"sync"
	"syscall"
	"unsafe"
)

const MaxClients = 8

const (
	stIdle = iota
	stParked
	stRunning
	stDone
)

type Engine struct {
	Choose func(label string, n int) int
	n      int
	goid   [MaxClients]uint64
	state  [MaxClients]int32
	word   [MaxClients]int32 // client i may run when word[i] == 1
	back   int32             // the scheduler may run when back == 1
	block  [MaxClients]int32 // consecutive yields of client i that reported "blocked on a lock"
	fn     [MaxClients]func()
	site   [MaxClients]string
	// Steps / Preempt: scheduling decisions taken / taken among several runnable clients.
	Steps, Preempt int
	// MaxSteps bounds a run (0 = 1e6).
	MaxSteps int
	// Deadlocked: every unfinished client failed three times to take a lock since anybody last
	// got past another kind of scheduling point or finished.
	Deadlocked bool
	OutOfSteps bool
	Sites      map[string]int
	OnStep     func(client int, site string)
	panics     [MaxClients]interface{}
	join       sync.WaitGroup
}

// Cur is the active engine (nil outside token runs). Read by vsim/vsync without synchronisation:
// it is set before the clients start and cleared after they ended.
var Cur *Engine

//go:norace
func futexWait(addr *int32, val int32) {
	syscall.Syscall6(syscall.SYS_FUTEX, uintptr(unsafe.Pointer(addr)), 0 /*FUTEX_WAIT*/, uintptr(val), 0, 0, 0)
}

//go:norace
func futexWake(addr *int32) {
	syscall.Syscall6(syscall.SYS_FUTEX, uintptr(unsafe.Pointer(addr)), 1 /*FUTEX_WAKE*/, 1, 0, 0, 0)
}

//go:norace
func load(p *int32) int32 { return *(*int32)(unsafe.Pointer(p)) }

//go:norace
func store(p *int32, v int32) { *(*int32)(unsafe.Pointer(p)) = v }

//go:norace
func curGoid() uint64 {
	var buf [64]byte
	n := runtime.Stack(buf[:], false)
	// "goroutine 123 ["
	var id uint64
	for i := 10; i < n; i++ {
		c := buf[i]
		if c < '0' || c > '9' {
			break
		}
		id = id*10 + uint64(c-'0')
	}
	return id
}

//go:norace
func (e *Engine) self() int {
	g := curGoid()
	for i := 0; i < e.n; i++ {
		if e.goid[i] == g {
			return i
		}
	}
	return -1
}

// waitTurn parks client i until the scheduler hands it the token.
//
//go:norace
func (e *Engine) waitTurn(i int) {
	for load(&e.word[i]) != 1 {
		futexWait(&e.word[i], 0)
	}
	store(&e.word[i], 0)
}

// giveBack returns the token to the scheduler.
//
//go:norace
func (e *Engine) giveBack() {
	store(&e.back, 1)
	futexWake(&e.back)
}

//go:norace
func (e *Engine) setState(i int, s int32) { store(&e.state[i], s) }

//go:norace
func (e *Engine) setSite(i int, s string) { e.site[i] = s }

// Yield is a scheduling point of the calling client (no-op for other goroutines).
//
//go:norace
func (e *Engine) Yield(site string) {
	i := e.self()
	if i < 0 {
		return
	}
	e.progress()
	e.park(i, site)
}

// progress: somebody got past a scheduling point that is not a failed lock attempt, so locks
// may have changed hands; failed attempts before that moment do not count towards a deadlock.
//
//go:norace
func (e *Engine) progress() {
	for j := 0; j < e.n; j++ {
		store(&e.block[j], 0)
	}
}

// Blocked is the scheduling point of a client that could not take a lock.
//
//go:norace
func (e *Engine) Blocked(site string) {
	i := e.self()
	if i < 0 {
		runtime.Gosched()
		return
	}
	store(&e.block[i], load(&e.block[i])+1)
	e.park(i, site)
}

//go:norace
func (e *Engine) park(i int, site string) {
	e.setSite(i, site)
	e.setState(i, stParked)
	e.giveBack()
	e.waitTurn(i)
	e.setState(i, stRunning)
}

// Go is not supported inside token runs (the keystore spawns no goroutines); it runs f inline.
func (e *Engine) Go(site string, f func()) { f() }

//go:norace
func (e *Engine) register(i int) { e.goid[i] = curGoid() }

//go:norace
func (e *Engine) finish(i int) {
	e.progress()
	e.setState(i, stDone)
	e.giveBack()
}

// Run executes the client functions under the token discipline and returns when all are done
// (or the run is given up: Deadlocked / OutOfSteps; the clients are then left parked for good).
func (e *Engine) Run(clients []func()) {
	if len(clients) > MaxClients {
		panic("vtok: too many clients")
	}
	e.n = len(clients)
	if e.Sites == nil {
		e.Sites = map[string]int{}
	}
	max := e.MaxSteps
	if max == 0 {
		max = 1000000
	}
	for i := range clients {
		i := i
		f := clients[i]
		e.state[i] = stParked
		e.site[i] = "start"
		ready := make(chan struct{})
		e.join.Add(1)
		go func() {
			e.register(i)
			close(ready)
			e.waitTurn(i)
			e.setState(i, stRunning)
			// (a genuine edge from the end of every client to whoever inspects the result of the run)
			defer e.join.Done()
			defer e.finish(i)
			defer func() {
				if v := recover(); v != nil {
					e.panics[i] = v
				}
			}()
			f()
		}()
		<-ready
	}
	for {
		var run [MaxClients]int
		nrun, allBlocked := 0, true
		for i := 0; i < e.n; i++ {
			if e.stateOf(i) == stParked {
				run[nrun] = i
				nrun++
				if e.blockOf(i) < 3 {
					allBlocked = false
				}
			}
		}
		if nrun == 0 {
			e.join.Wait()
			return
		}
		if allBlocked {
			e.Deadlocked = true
			return
		}
		if e.Steps >= max {
			e.OutOfSteps = true
			return
		}
		k := 0
		if nrun > 1 {
			k = e.Choose("sched", nrun)
			e.Preempt++
		}
		c := run[k]
		e.Steps++
		s := e.siteOf(c)
		e.Sites[s]++
		if e.OnStep != nil {
			e.OnStep(c, s)
		}
		e.resume(c)
	}
}

//go:norace
func (e *Engine) stateOf(i int) int32 { return load(&e.state[i]) }

//go:norace
func (e *Engine) blockOf(i int) int32 { return load(&e.block[i]) }

//go:norace
func (e *Engine) siteOf(i int) string { return e.site[i] }

//go:norace
func (e *Engine) resume(c int) {
	store(&e.back, 0)
	store(&e.word[c], 1)
	futexWake(&e.word[c])
	for load(&e.back) != 1 {
		futexWait(&e.back, 0)
	}
}

// Panics returns what the clients panicked with (nil entries for those that did not).
func (e *Engine) Panics() []interface{} {
	out := make([]interface{}, e.n)
	for i := 0; i < e.n; i++ {
		out[i] = e.panics[i]
	}
	return out
}

// Parked lists the sites at which unfinished clients are parked.
func (e *Engine) Parked() []string {
	var out []string
	for i := 0; i < e.n; i++ {
		if e.stateOf(i) == stParked {
			out = append(out, e.siteOf(i))
		}
	}
	return out
}
