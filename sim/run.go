//go:build go1.23

package sim

import (
	"encoding/json"
	"fmt"
	"hash/fnv"
	"os"
	"path/filepath"
	"runtime/debug"
	"sort"
	"strconv"
	"strings"
	"time"
)

// Violation is one oracle failure. Sig is built from stable facts only
// (<prop>/<check>/<site>), never from values that vary between runs.
type Violation struct {
	Sig    string `json:"sig"`
	Detail string `json:"detail"`
}

// Run is the context of one simulated execution.
type Run struct {
	Prop   string
	Config string
	Seed   uint64
	T      *Tape

	Viol     []Violation
	KnownHit []Violation
	trace    []string
	traceCut int
	h        uint64 // rolling hash of the event log
	Counters map[string]int64
	States   map[uint64]struct{}
	SimTime  time.Duration
	// Measures used by the "non-trivial" rule.
	Ops, Faults, Preempts int
	// Steps is the simulated-step budget counter (I/O ops, scheduler steps).
	Steps, StepBudget int
	// Quiet suppresses trace storage (used while shrinking).
	Quiet bool
}

// KnownSigs are the signatures listed as known findings (VERIF_KNOWN_SIGS, set by the supervisor
// from known_findings.jsonl; never written at run time).
var KnownSigs = map[string]bool{}

// Cur is the run currently executing in this process (one at a time).
var Cur *Run

const maxTrace = 4000

// Event appends a line to the event log. The log is hashed (determinism check,
// distinctness) and kept as the human-readable trace. Never draws, never reads a clock.
func (r *Run) Event(format string, args ...interface{}) {
	s := fmt.Sprintf(format, args...)
	h := fnv.New64a()
	var b [8]byte
	for i := 0; i < 8; i++ {
		b[i] = byte(r.h >> (8 * i))
	}
	h.Write(b[:])
	h.Write([]byte(s))
	r.h = h.Sum64()
	if r.Quiet {
		return
	}
	if len(r.trace) < maxTrace {
		r.trace = append(r.trace, s)
	} else {
		r.traceCut++
	}
}

func (r *Run) Hash() uint64 { return r.h }

func (r *Run) Trace() []string {
	if r.traceCut > 0 {
		return append(append([]string{}, r.trace...), fmt.Sprintf("... %d more events", r.traceCut))
	}
	return r.trace
}

// FailUnhashed records a violation without feeding the event hash: for monitors whose reports
// depend on the history of the process rather than on the run alone (the race detector reports
// a given pair of stacks once per process).
func (r *Run) FailUnhashed(sig string, format string, args ...interface{}) {
	h := r.h
	r.Fail(sig, format, args...)
	r.h = h
}

// Fail records a violation (the run continues unless the caller stops it).
func (r *Run) Fail(sig string, format string, args ...interface{}) {
	d := fmt.Sprintf(format, args...)
	if KnownSigs[sig] {
		// a listed known finding: recorded, reported by the supervisor as KNOWN-FINDING, and the
		// run goes on so that the finding does not mask the rest of the exploration
		r.Event("KNOWN-FINDING %s: %s", sig, d)
		for _, v := range r.KnownHit {
			if v.Sig == sig {
				return
			}
		}
		r.KnownHit = append(r.KnownHit, Violation{Sig: sig, Detail: d})
		return
	}
	r.Event("VIOLATION %s: %s", sig, d)
	for _, v := range r.Viol {
		if v.Sig == sig {
			return
		}
	}
	r.Viol = append(r.Viol, Violation{Sig: sig, Detail: d})
}

func (r *Run) Failed() bool { return len(r.Viol) > 0 }

func (r *Run) Count(name string, d int) {
	r.Counters[name] += int64(d)
}

// Probe marks "this rare condition was reached".
func (r *Run) Probe(name string) { r.Counters["probe:"+name]++ }

// Fault marks an injected fault that actually fired.
func (r *Run) Fault(kind string) {
	r.Faults++
	r.Counters["fault:"+kind]++
}

func (r *Run) State(h uint64) { r.States[h] = struct{}{} }

// Step consumes simulated-step budget; exceeding it panics with BudgetExceeded,
// which Guard converts into a bounded-liveness violation of the calling op.
type BudgetExceeded struct{ Steps int }

func (r *Run) Step() {
	r.Steps++
	if r.StepBudget > 0 && r.Steps > r.StepBudget {
		panic(BudgetExceeded{r.Steps})
	}
}

// Crash is the sentinel panic used by fault injectors to kill the simulated process.
type Crash struct{ At string }

// Outcome of a guarded call into repository code.
type Outcome struct {
	Panicked bool
	PanicVal interface{}
	Stack    string
	Crashed  bool // simulated process death (Crash sentinel / FATAL exit)
	CrashAt  string
	Budget   bool // step budget exceeded
}

// Guard runs f (a call into repository code) and classifies how it ended.
func (r *Run) Guard(f func()) (o Outcome) {
	defer func() {
		if v := recover(); v != nil {
			switch x := v.(type) {
			case Crash:
				o.Crashed, o.CrashAt = true, x.At
			case BudgetExceeded:
				o.Budget = true
			default:
				o.Panicked, o.PanicVal, o.Stack = true, v, string(debug.Stack())
			}
		}
	}()
	f()
	return
}

// PanicSite extracts the first repository frame ("massnet.org/mass/...") from a stack.
func PanicSite(stack string) string {
	for _, ln := range strings.Split(stack, "\n") {
		ln = strings.TrimSpace(ln)
		if strings.HasPrefix(ln, "massnet.org/mass/") && !strings.Contains(ln, "zzverif") && !strings.Contains(ln, ".zz") {
			if i := strings.LastIndex(ln, "("); i > 0 {
				ln = ln[:i]
			}
			return strings.TrimPrefix(ln, "massnet.org/mass/")
		}
	}
	return "unknown"
}

// RunFunc executes one simulation on r.
type RunFunc func(r *Run)

func newRun(prop, config string, seed uint64, t *Tape) *Run {
	return &Run{Prop: prop, Config: config, Seed: seed, T: t,
		Counters: map[string]int64{}, States: map[uint64]struct{}{}}
}

// Execute runs f once on the given tape.
func Execute(prop, config string, seed uint64, t *Tape, f RunFunc, quiet bool) *Run {
	r := newRun(prop, config, seed, t)
	r.Quiet = quiet
	if t.Limit == 0 {
		t.Limit = 200000
	}
	Cur = r
	f(r)
	Cur = nil
	return r
}

// ---------------------------------------------------------------------------------------------
// Replay files

type ReplayFile struct {
	Property  string   `json:"property"`
	Seed      uint64   `json:"seed"`
	Config    string   `json:"config"`
	Signature string   `json:"signature"`
	Detail    string   `json:"detail"`
	Tape      []Entry  `json:"tape"`
	TapeLen0  int      `json:"tape_len_before_shrink"`
	ShrinkRun int      `json:"shrink_executions"`
	Trace     []string `json:"trace"`
}

func sig8(s string) string {
	h := fnv.New32a()
	h.Write([]byte(s))
	return fmt.Sprintf("%08x", h.Sum32())
}

// ---------------------------------------------------------------------------------------------
// Worker driver

type WorkerViolation struct {
	Sig    string `json:"sig"`
	Detail string `json:"detail"`
	Seed   uint64 `json:"seed"`
	Replay string `json:"replay"`
	Count  int    `json:"count"`
}

type WorkerResult struct {
	Property    string            `json:"property"`
	Config      string            `json:"config"`
	Worker      int               `json:"worker"`
	Runs        int               `json:"runs"`
	NonTrivial  []string          `json:"nontrivial_hashes"`
	AllDistinct int               `json:"distinct_hashes"`
	Counters    map[string]int64  `json:"counters"`
	States      []string          `json:"states"`
	SimTimeNs   int64             `json:"sim_time_ns"`
	Samples     []Sample          `json:"samples"`
	Violations  []WorkerViolation `json:"violations"`
	Known       []WorkerViolation `json:"known"`
	SeedHashes  map[string]string `json:"seed_hashes"` // run seed -> event-log hash (determinism check)
	WallS       float64           `json:"wall_s"`
	Ops         int64             `json:"ops"`
	TapeDraws   int64             `json:"tape_draws"`
	Schedules   int               `json:"distinct_schedules"`
}

type Sample struct {
	Seed  uint64   `json:"seed"`
	Trace []string `json:"trace"`
}

func envInt(name string, def int) int {
	if s := os.Getenv(name); s != "" {
		if v, err := strconv.Atoi(s); err == nil {
			return v
		}
	}
	return def
}

func envU64(name string, def uint64) uint64 {
	if s := os.Getenv(name); s != "" {
		if v, err := strconv.ParseUint(s, 10, 64); err == nil {
			return v
		}
		if v, err := strconv.ParseInt(s, 10, 64); err == nil {
			return uint64(v)
		}
	}
	return def
}

// EngineError aborts the worker with exit code 2: trouble in the machinery, never a verdict.
func EngineError(format string, args ...interface{}) {
	fmt.Fprintf(os.Stderr, "ENGINE-ERROR: "+format+"\n", args...)
	os.Exit(2)
}

// Main is called from the single Test function of a simulator binary.
// Returns normally when nothing was found; exits 1 = violation(s) written, 2 = engine trouble.
func Main(sims map[string]RunFunc) {
	prop := os.Getenv("VERIF_PROP")
	f, ok := sims[prop]
	if !ok {
		EngineError("simulator has no property %q", prop)
	}
	config := os.Getenv("VERIF_CONFIG")
	mode := os.Getenv("VERIF_MODE")
	out := os.Getenv("VERIF_OUT")
	if out == "" {
		out = "."
	}
	defer func() {
		if v := recover(); v != nil {
			seed := uint64(0)
			if Cur != nil {
				seed = Cur.Seed
				for _, l := range Cur.Trace() {
					fmt.Fprintln(os.Stderr, "  | "+l)
				}
			}
			EngineError("harness panic (run seed %d): %v\n%s", seed, v, debug.Stack())
		}
	}()
	switch mode {
	case "replay":
		replayMain(prop, f)
	default:
		searchMain(prop, config, f, out)
	}
}

func replayMain(prop string, f RunFunc) {
	path := os.Getenv("VERIF_REPLAY")
	b, err := os.ReadFile(path)
	if err != nil {
		EngineError("read replay: %v", err)
	}
	var rf ReplayFile
	if err := json.Unmarshal(b, &rf); err != nil {
		EngineError("parse replay: %v", err)
	}
	if rf.Property != prop {
		EngineError("replay file is for %s, not %s", rf.Property, prop)
	}
	r := Execute(prop, rf.Config, rf.Seed, NewReplayTape(rf.Seed, rf.Tape), f, false)
	r.Viol = append(r.Viol, r.KnownHit...)
	for _, l := range r.Trace() {
		fmt.Println("  | " + l)
	}
	for _, v := range r.Viol {
		fmt.Printf("REPLAY-VIOLATION sig=%s detail=%s\n", v.Sig, v.Detail)
	}
	for _, v := range r.Viol {
		if v.Sig == rf.Signature {
			fmt.Printf("REPRODUCED sig=%s hash=%016x\n", v.Sig, r.Hash())
			os.Exit(1)
		}
	}
	fmt.Printf("NOT-REPRODUCED expected=%s hash=%016x\n", rf.Signature, r.Hash())
}

func searchMain(prop, config string, f RunFunc, out string) {
	root := envU64("VERIF_SEED", 1)
	worker := envInt("VERIF_WORKER", 0)
	workers := envInt("VERIF_WORKERS", 1)
	maxRuns := envInt("VERIF_RUNS", 1000)
	budget := time.Duration(envInt("VERIF_BUDGET_S", 60)) * time.Second
	maxSigs := envInt("VERIF_MAXSIGS", 6)
	shrinkBudget := time.Duration(envInt("VERIF_SHRINK_S", 45)) * time.Second
	detN := envInt("VERIF_DET_RUNS", 0) // first detN run indexes are hashed for the determinism check
	// explicit list of run indexes (used by the determinism re-run process)
	var explicit []int
	if s := os.Getenv("VERIF_RUN_INDEXES"); s != "" {
		for _, p := range strings.Split(s, ",") {
			if v, err := strconv.Atoi(p); err == nil {
				explicit = append(explicit, v)
			}
		}
	}

	for _, k := range strings.Split(os.Getenv("VERIF_KNOWN_SIGS"), "\x1f") {
		if k != "" {
			KnownSigs[k] = true
		}
	}
	start := time.Now()
	knownSeen := map[string]bool{}
	res := WorkerResult{Property: prop, Config: config, Worker: worker,
		Counters: map[string]int64{}, SeedHashes: map[string]string{}}
	nontrivial := map[uint64]struct{}{}
	all := map[uint64]struct{}{}
	states := map[uint64]struct{}{}
	scheds := map[uint64]struct{}{}
	seenSig := map[string]int{}

	runOne := func(idx int) {
		seed := Mix(root, uint64(idx))
		t := NewSearchTape(seed)
		r := Execute(prop, config, seed, t, f, false)
		res.Runs++
		res.Ops += int64(r.Ops)
		res.TapeDraws += int64(len(t.Rec))
		res.SimTimeNs += int64(r.SimTime)
		for k, v := range r.Counters {
			res.Counters[k] += v
		}
		for s := range r.States {
			states[s] = struct{}{}
		}
		all[r.Hash()] = struct{}{}
		// schedule hash = hash of the "sched" choices
		sh := fnv.New64a()
		nsched := 0
		for _, e := range t.Rec {
			if strings.HasPrefix(e.L, "sched") {
				sh.Write([]byte{byte(e.V), byte(e.V >> 8)})
				nsched++
			}
		}
		if nsched > 0 {
			scheds[sh.Sum64()] = struct{}{}
		}
		if r.Faults >= 1 || r.Preempts >= 1 || r.Ops >= 3 {
			nontrivial[r.Hash()] = struct{}{}
		}
		if idx < detN || explicit != nil {
			res.SeedHashes[strconv.Itoa(idx)] = fmt.Sprintf("%016x", r.Hash())
		}
		if len(res.Samples) < 3 && (r.Ops >= 3 || r.Faults >= 1) {
			tr := r.Trace()
			if len(tr) > 60 {
				tr = append(append([]string{}, tr[:60]...), fmt.Sprintf("... %d more events", len(tr)-60))
			}
			res.Samples = append(res.Samples, Sample{Seed: seed, Trace: tr})
		}
		for _, v := range r.KnownHit {
			res.Counters["known:"+v.Sig]++
			if !knownSeen[v.Sig] {
				knownSeen[v.Sig] = true
				// one (unshrunk) replay per worker identifies the finding
				rf := ReplayFile{Property: prop, Seed: seed, Config: config, Signature: v.Sig, Detail: v.Detail, Tape: t.Rec, TapeLen0: len(t.Rec), Trace: r.Trace()}
				path := filepath.Join(out, fmt.Sprintf("%s-%d-%s.json", prop, seed, sig8(v.Sig)))
				b, _ := json.MarshalIndent(rf, "", " ")
				os.WriteFile(path, b, 0o644)
				res.Known = append(res.Known, WorkerViolation{Sig: v.Sig, Detail: v.Detail, Seed: seed, Replay: path, Count: 1})
			}
		}
		for _, v := range r.Viol {
			seenSig[v.Sig]++
			if seenSig[v.Sig] > 1 {
				for i := range res.Violations {
					if res.Violations[i].Sig == v.Sig {
						res.Violations[i].Count++
					}
				}
				continue
			}
			// minimise and write the replay file
			tape, execs := Shrink(prop, config, seed, t.Rec, f, v.Sig, shrinkBudget)
			rr := Execute(prop, config, seed, NewReplayTape(seed, tape), f, false)
			detail := v.Detail
			for _, vv := range rr.Viol {
				if vv.Sig == v.Sig {
					detail = vv.Detail
				}
			}
			rf := ReplayFile{Property: prop, Seed: seed, Config: config, Signature: v.Sig, Detail: detail,
				Tape: tape, TapeLen0: len(t.Rec), ShrinkRun: execs, Trace: rr.Trace()}
			name := fmt.Sprintf("%s-%d-%s.json", prop, seed, sig8(v.Sig))
			path := filepath.Join(out, name)
			b, _ := json.MarshalIndent(rf, "", " ")
			if err := os.WriteFile(path, b, 0o644); err != nil {
				EngineError("write replay: %v", err)
			}
			res.Violations = append(res.Violations, WorkerViolation{Sig: v.Sig, Detail: detail, Seed: seed, Replay: path, Count: 1})
		}
	}

	if explicit != nil {
		for _, idx := range explicit {
			runOne(idx)
		}
	} else {
		for idx := worker; idx < maxRuns; idx += workers {
			if time.Since(start) > budget {
				break
			}
			if len(seenSig) >= maxSigs {
				break
			}
			runOne(idx)
		}
	}

	for h := range nontrivial {
		res.NonTrivial = append(res.NonTrivial, fmt.Sprintf("%016x", h))
	}
	sort.Strings(res.NonTrivial)
	for h := range states {
		res.States = append(res.States, fmt.Sprintf("%016x", h))
	}
	sort.Strings(res.States)
	res.AllDistinct = len(all)
	res.Schedules = len(scheds)
	res.WallS = time.Since(start).Seconds()
	b, _ := json.Marshal(res)
	name := fmt.Sprintf("worker-%s-%d.json", config, worker)
	if explicit != nil {
		name = fmt.Sprintf("det-%s-%d.json", config, worker)
	}
	if err := os.WriteFile(filepath.Join(out, name), b, 0o644); err != nil {
		EngineError("write result: %v", err)
	}
	if len(res.Violations) > 0 {
		os.Exit(1)
	}
	// exit 0 = plain return (the testing package forbids os.Exit(0) inside a test)
}
