//go:build go1.23

// Package vsync provides the mutex types that rewritten repository code uses instead of
// sync.Mutex / sync.RWMutex. Outside a bubble they are the real sync types. Inside a synctest
// bubble they block on channels (durably, so that quiescence detection sees them) and keep the
// semantics of the originals, including writer preference of RWMutex.
package vsync

import (
	"runtime"
	"strconv"
	"strings"
	"sync"

	"verif/sim/vsim"
	"verif/sim/vtok"
)

// caller names the repository statement that asked for the lock (diagnostics of blocked clients).
func caller() string {
	for skip := 2; skip < 6; skip++ {
		_, file, line, ok := runtime.Caller(skip)
		if !ok {
			break
		}
		if !strings.Contains(file, "/sim/vsync/") {
			if i := strings.LastIndex(file, "/"); i >= 0 {
				file = file[i+1:]
			}
			return file + ":" + strconv.Itoa(line)
		}
	}
	return "?"
}

type waiter struct {
	write bool
	ch    chan struct{}
}

type Mutex struct {
	rw RWMutex
}

func (m *Mutex) Lock()   { m.rw.Lock() }
func (m *Mutex) Unlock() { m.rw.Unlock() }

type RWMutex struct {
	real    sync.RWMutex
	mu      sync.Mutex
	readers int
	writer  bool
	q       []*waiter
	bubble  bool
	decided bool
}

func (m *RWMutex) inBubble() bool {
	m.mu.Lock()
	if !m.decided {
		m.decided = true
		m.bubble = vsim.InBubble()
	}
	b := m.bubble
	m.mu.Unlock()
	return b
}

func (m *RWMutex) grant() {
	for len(m.q) > 0 {
		h := m.q[0]
		if h.write {
			if !m.writer && m.readers == 0 {
				m.writer = true
				m.q = m.q[1:]
				close(h.ch)
			}
			return
		}
		if m.writer {
			return
		}
		m.readers++
		m.q = m.q[1:]
		close(h.ch)
	}
}

func (m *RWMutex) Lock() {
	if t := vtok.Cur; t != nil {
		// token engine: the real mutex (genuine acquire/release edges for the race detector),
		// taken without ever blocking the token holder
		for !m.real.TryLock() {
			t.Blocked("blocked on lock " + caller())
		}
		return
	}
	if !m.inBubble() {
		m.real.Lock()
		return
	}
	m.mu.Lock()
	if !m.writer && m.readers == 0 && len(m.q) == 0 {
		m.writer = true
		m.mu.Unlock()
		return
	}
	w := &waiter{write: true, ch: make(chan struct{})}
	m.q = append(m.q, w)
	m.mu.Unlock()
	vsim.Blocked("lock")
	<-w.ch
}

func (m *RWMutex) Unlock() {
	if vtok.Cur != nil {
		m.real.Unlock()
		return
	}
	if !m.inBubble() {
		m.real.Unlock()
		return
	}
	m.mu.Lock()
	if !m.writer {
		m.mu.Unlock()
		panic("sync: Unlock of unlocked RWMutex")
	}
	m.writer = false
	m.grant()
	m.mu.Unlock()
}

func (m *RWMutex) RLock() {
	if t := vtok.Cur; t != nil {
		for !m.real.TryRLock() {
			t.Blocked("blocked on rlock " + caller())
		}
		return
	}
	if !m.inBubble() {
		m.real.RLock()
		return
	}
	m.mu.Lock()
	if !m.writer && len(m.q) == 0 {
		m.readers++
		m.mu.Unlock()
		return
	}
	w := &waiter{ch: make(chan struct{})}
	m.q = append(m.q, w)
	m.mu.Unlock()
	vsim.Blocked("rlock")
	<-w.ch
}

// Held reports whether the lock is held by anyone (bubble mode; for invariant evaluation at
// quiescent moments only).
func (m *RWMutex) Held() bool {
	m.mu.Lock()
	defer m.mu.Unlock()
	return m.writer || m.readers > 0
}

func (m *Mutex) Held() bool { return m.rw.Held() }

func (m *RWMutex) RUnlock() {
	if vtok.Cur != nil {
		m.real.RUnlock()
		return
	}
	if !m.inBubble() {
		m.real.RUnlock()
		return
	}
	m.mu.Lock()
	if m.readers <= 0 {
		m.mu.Unlock()
		panic("sync: RUnlock of unlocked RWMutex")
	}
	m.readers--
	if m.readers == 0 {
		m.grant()
	}
	m.mu.Unlock()
}
