//go:build go1.23

package sim

import "time"

// Shrink minimises a recorded tape by delta debugging while the same violation
// signature persists: truncate the tail, delete chunks, zero entries ("first
// alternative / no fault"), lower values. Candidates are re-executed in-process;
// the simulators reset all global state at the start of every run.
func Shrink(prop, config string, seed uint64, tape []Entry, f RunFunc, sig string, budget time.Duration) ([]Entry, int) {
	start := time.Now()
	execs := 0
	cur := append([]Entry{}, tape...)
	test := func(cand []Entry) bool {
		if time.Since(start) > budget {
			return false
		}
		execs++
		t := NewReplayTape(seed, cand)
		r := Execute(prop, config, seed, t, f, true)
		for _, v := range r.Viol {
			if v.Sig == sig {
				return true
			}
		}
		return false
	}
	// normalise: what the replay actually consumed
	norm := func(cand []Entry) []Entry {
		t := NewReplayTape(seed, cand)
		r := Execute(prop, config, seed, t, f, true)
		ok := false
		for _, v := range r.Viol {
			if v.Sig == sig {
				ok = true
			}
		}
		if !ok {
			return nil
		}
		rec := t.Rec
		// drop trailing zeros: an exhausted tape yields zeros anyway
		for len(rec) > 0 && rec[len(rec)-1].V == 0 {
			rec = rec[:len(rec)-1]
		}
		return append([]Entry{}, rec...)
	}
	if n := norm(cur); n != nil {
		cur = n
	} else {
		return cur, execs // not reproducible in-process: report unshrunk
	}

	improved := true
	for pass := 0; improved && pass < 8 && time.Since(start) < budget; pass++ {
		improved = false
		// 1. truncate tail (binary search on kept length)
		lo, hi := 0, len(cur)
		for lo < hi {
			mid := (lo + hi) / 2
			if test(cur[:mid]) {
				hi = mid
			} else {
				lo = mid + 1
			}
		}
		if hi < len(cur) && test(cur[:hi]) {
			cur = append([]Entry{}, cur[:hi]...)
			improved = true
		}
		// 2. delete chunks
		for size := 16; size >= 1; size /= 2 {
			for i := 0; i+size <= len(cur); {
				cand := append(append([]Entry{}, cur[:i]...), cur[i+size:]...)
				if test(cand) {
					cur = cand
					improved = true
				} else {
					i += size
				}
				if time.Since(start) > budget {
					break
				}
			}
		}
		// 3. zero / lower entries
		for i := 0; i < len(cur); i++ {
			if cur[i].V == 0 {
				continue
			}
			old := cur[i].V
			for _, nv := range []int{0, old / 2, old - 1} {
				if nv >= old || nv < 0 {
					continue
				}
				cur[i].V = nv
				if test(cur) {
					improved = true
					break
				}
				cur[i].V = old
			}
			if time.Since(start) > budget {
				break
			}
		}
		if n := norm(cur); n != nil && len(n) <= len(cur) {
			cur = n
		}
	}
	return cur, execs
}
