//go:build go1.25

package vsim

import (
	"bytes"
	"fmt"
	"runtime"
	"sort"
	"strconv"
	"sync"
	"testing"
	"testing/synctest"
	"time"
)

// Bubble is the scheduling engine for code with channels, timers and goroutines (DESIGN.md 2.4).
// Everything runs inside one synctest bubble. Repository goroutines park at the inserted yield
// points; the root loop waits for quiescence, asks the chooser which parked goroutine runs next
// (or whether simulated time may pass instead), and resumes exactly one.
type Bubble struct {
	mu      sync.Mutex
	parked  []*parkedG
	gids    map[uint64]int // goroutine id -> logical id
	names   map[int]string
	nextID  int
	live    map[int]string // logical id -> spawn site of goroutines that have not exited
	wake    chan struct{}
	Choose  func(label string, n int) int
	OnStep  func() // step budget
	// OnQuiescent is called by the root loop whenever every goroutine is parked or blocked
	// (the consistent moments at which invariants are evaluated).
	OnQuiescent func()
	Steps   int
	Preempt int // steps at which a choice among >1 alternatives was made
	killed  bool
	// Sites counts how often each yield site was the point where a goroutine was resumed.
	Sites map[string]int
	Trace func(format string, args ...interface{})
	// Stalled, if set, names goroutines (by spawn site) that are slow right now: they are passed
	// over while anybody else can run (a stalled node, not a dead one).
	Stalled func(spawnSite string, step int) bool
	// StalledSteps counts the steps at which a stalled goroutine was passed over.
	StalledSteps int
}

type parkedG struct {
	id   int
	site string
	ch   chan bool // true = continue, false = die (end of run)
}

type killSentinel struct{}

func goid() uint64 {
	var buf [64]byte
	b := buf[:runtime.Stack(buf[:], false)]
	b = bytes.TrimPrefix(b, []byte("goroutine "))
	i := bytes.IndexByte(b, ' ')
	n, _ := strconv.ParseUint(string(b[:i]), 10, 64)
	return n
}

var inBubble bool

// InBubble reports whether the bubble engine is active (vsync decides its representation on it).
func InBubble() bool { return inBubble }

// Blocked is called by vsync right before a durable block (bookkeeping only).
func Blocked(what string) {}

func NewBubble(choose func(label string, n int) int) *Bubble {
	return &Bubble{gids: map[uint64]int{}, names: map[int]string{}, live: map[int]string{},
		Choose: choose, Sites: map[string]int{}}
}

func (b *Bubble) register(site string) int {
	b.mu.Lock()
	defer b.mu.Unlock()
	id := b.nextID
	b.nextID++
	b.gids[goid()] = id
	b.names[id] = site
	b.live[id] = site
	return id
}

func (b *Bubble) unregister(id int) {
	b.mu.Lock()
	delete(b.live, id)
	b.mu.Unlock()
}

// self returns the logical id of the calling goroutine, or -1 if it was not spawned through
// vsim.Go (the root of the bubble, library workers): such goroutines never park.
func (b *Bubble) self() int {
	g := goid()
	b.mu.Lock()
	id, ok := b.gids[g]
	b.mu.Unlock()
	if !ok {
		return -1
	}
	return id
}

// Go spawns a repository goroutine under the engine's control.
func (b *Bubble) Go(site string, f func()) {
	started := make(chan struct{})
	go func() {
		id := b.register(site)
		close(started)
		defer b.unregister(id)
		defer func() {
			if v := recover(); v != nil {
				if _, ok := v.(killSentinel); ok {
					return
				}
				RecordPanic(site, v)
			}
		}()
		b.Yield("start " + site)
		f()
	}()
	<-started // logical ids are assigned in spawn order
}

// Yield parks the calling goroutine until the root loop resumes it.
func (b *Bubble) Yield(site string) {
	id := b.self()
	if id < 0 {
		return
	}
	if b.killed {
		panic(killSentinel{})
	}
	p := &parkedG{id: id, site: site, ch: make(chan bool)}
	b.mu.Lock()
	b.parked = append(b.parked, p)
	b.mu.Unlock()
	select {
	case b.wake <- struct{}{}:
	default:
	}
	if !<-p.ch {
		panic(killSentinel{})
	}
}

// LiveGoroutines returns the spawn sites of registered goroutines that have not exited.
func (b *Bubble) LiveGoroutines() []string {
	b.mu.Lock()
	defer b.mu.Unlock()
	var out []string
	for _, s := range b.live {
		out = append(out, s)
	}
	sort.Strings(out)
	return out
}

// Result of RunUntil.
type StopReason int

const (
	Done     StopReason = iota // the done predicate became true
	Quiesced                   // nothing parked, no timer before the horizon: everything is blocked
	Horizon                    // simulated-time horizon reached
	Budget                     // step budget exhausted
)

// RunUntil drives the system until done() holds, nothing can run any more, the horizon is
// reached, or maxSteps scheduling steps were taken. letTimePass: offer "let simulated time
// advance" as an alternative while goroutines are parked (they stay parked - a stalled
// goroutine - while a timer fires).
func (b *Bubble) RunUntil(done func() bool, horizon time.Duration, maxSteps int, letTimePass bool) StopReason {
	deadline := time.Now().Add(horizon)
	for steps := 0; ; steps++ {
		synctest.Wait()
		if b.OnQuiescent != nil {
			b.OnQuiescent()
		}
		if done() {
			return Done
		}
		if steps >= maxSteps {
			return Budget
		}
		b.mu.Lock()
		sort.Slice(b.parked, func(i, j int) bool { return b.parked[i].id < b.parked[j].id })
		n := len(b.parked)
		b.mu.Unlock()
		if n == 0 {
			// everything is blocked: let the clock jump to the next timer, or give up at the horizon
			if !time.Now().Before(deadline) {
				return Horizon
			}
			t := time.NewTimer(time.Until(deadline))
			select {
			case <-b.wake:
				t.Stop()
				continue
			case <-t.C:
				synctest.Wait()
				b.mu.Lock()
				n = len(b.parked)
				b.mu.Unlock()
				if n == 0 {
					return Quiesced
				}
				return Horizon
			}
		}
		// slow goroutines step aside while somebody else can run
		cand := make([]int, 0, n)
		if b.Stalled != nil {
			b.mu.Lock()
			for i, p := range b.parked {
				if !b.Stalled(b.live[p.id], b.Steps) {
					cand = append(cand, i)
				}
			}
			b.mu.Unlock()
			if len(cand) == 0 || len(cand) == n {
				cand = cand[:0]
			} else {
				b.StalledSteps++
			}
		}
		alts := n
		if len(cand) > 0 {
			alts = len(cand)
		}
		if letTimePass {
			alts++
		}
		k := 0
		if alts > 1 {
			k = b.Choose("sched", alts)
			b.Preempt++
		}
		if letTimePass && k == alts-1 {
			k = n // "let time pass"
		} else if len(cand) > 0 {
			k = cand[k]
		}
		b.Steps++
		if b.OnStep != nil {
			b.OnStep()
		}
		if k == n {
			// let simulated time pass: sleep a little; timer owners run, parked ones stay parked
			time.Sleep(time.Millisecond * 50)
			continue
		}
		b.mu.Lock()
		p := b.parked[k]
		b.parked = append(b.parked[:k], b.parked[k+1:]...)
		b.mu.Unlock()
		b.Sites[p.site]++
		if b.Trace != nil {
			b.Trace("run g%d@%s", p.id, p.site)
		}
		// drain a stale wake token so that the next empty-parked wait really waits
		select {
		case <-b.wake:
		default:
		}
		p.ch <- true
	}
}

// KillAll ends the run: every parked goroutine dies at its yield point, and goroutines that
// reach a yield point later die there.
func (b *Bubble) KillAll() {
	b.killed = true
	for i := 0; i < 10000; i++ {
		synctest.Wait()
		b.mu.Lock()
		ps := b.parked
		b.parked = nil
		b.mu.Unlock()
		if len(ps) == 0 {
			return
		}
		for _, p := range ps {
			p.ch <- false
		}
	}
}

// RunBubble executes body inside a fresh synctest bubble with this engine active, and maps the
// end-of-bubble deadlock panic (goroutines left blocked for good) to leaked=true.
func RunBubble(t *testing.T, b *Bubble, body func()) (leaked bool, err interface{}) {
	prevE, prevIn := E, inBubble
	defer func() {
		E, inBubble = prevE, prevIn
		if v := recover(); v != nil {
			s := fmt.Sprint(v)
			if bytes.Contains([]byte(s), []byte("deadlock")) || bytes.Contains([]byte(s), []byte("blocked goroutines")) {
				leaked = true
				return
			}
			err = v
		}
	}()
	E, inBubble = b, true
	synctest.Test(t, func(t *testing.T) {
		// channels the bubble blocks on must be created inside it (durable blocking)
		b.wake = make(chan struct{}, 1)
		body()
	})
	return
}
