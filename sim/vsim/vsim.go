//go:build go1.23

// Package vsim is what rewritten repository code calls: vsim.Go replaces the go statement,
// vsim.Yield marks a scheduling point. The engine behind it is pluggable: the plain engine
// (sequential simulators) runs real goroutines with a recover wrapper; the bubble engine
// (keeper, miner, fractal simulators) parks goroutines and lets the tape pick who runs.
package vsim

import (
	"runtime/debug"
	"sync"
)

type Engine interface {
	Go(site string, f func())
	Yield(site string)
}

// GoPanic is a panic that ended a repository goroutine (in production it would have killed
// the process).
type GoPanic struct {
	Site  string
	Val   interface{}
	Stack string
}

var (
	mu     sync.Mutex
	panics []GoPanic
	// E is the active engine.
	E Engine = Plain{}
)

func Go(site string, f func()) { E.Go(site, f) }
func Yield(site string)        { E.Yield(site) }

// RecordPanic is used by engines.
func RecordPanic(site string, v interface{}) {
	mu.Lock()
	panics = append(panics, GoPanic{Site: site, Val: v, Stack: string(debug.Stack())})
	mu.Unlock()
}

// TakePanics returns and clears the recorded goroutine panics.
func TakePanics() []GoPanic {
	mu.Lock()
	defer mu.Unlock()
	p := panics
	panics = nil
	return p
}

// Plain: real goroutines, no scheduling control (the callers of sequential simulators wait
// for the goroutine's result, so only one goroutine runs repository code at a time).
type Plain struct{}

func (Plain) Go(site string, f func()) {
	go func() {
		defer func() {
			if v := recover(); v != nil {
				RecordPanic(site, v)
			}
		}()
		f()
	}()
}

func (Plain) Yield(site string) {}
