//go:build go1.25

// Package vants stands in for github.com/panjf2000/ants/v2 in rewritten scratch copies: the same
// contract as the pool the repository uses (fixed capacity, Submit blocks while every worker is
// busy, Release), but each task runs as an engine-scheduled goroutine, so that the order in which
// pooled tasks run is a tape decision like every other interleaving.
package vants

import (
	"errors"
	"sync/atomic"

	"verif/sim/vsim"
)

var ErrPoolClosed = errors.New("this pool has been closed")

type Pool struct {
	sem    chan struct{}
	closed int32
	// Submitted counts accepted tasks.
	Submitted int64
}

func NewPool(size int) (*Pool, error) {
	if size <= 0 {
		size = 1 << 20
	}
	return &Pool{sem: make(chan struct{}, size)}, nil
}

func (p *Pool) Submit(task func()) error {
	if atomic.LoadInt32(&p.closed) == 1 {
		return ErrPoolClosed
	}
	p.sem <- struct{}{}
	atomic.AddInt64(&p.Submitted, 1)
	vsim.Go("pool-worker", func() {
		defer func() { <-p.sem }()
		task()
	})
	return nil
}

func (p *Pool) Release() { atomic.StoreInt32(&p.closed, 1) }
