module verif/sim

go 1.13

require github.com/syndtr/goleveldb v1.0.1-0.20210305035536-64b5b1c73954
