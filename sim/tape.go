//go:build go1.23

// Package sim is the deterministic-simulation core: one integer decides every
// choice of a run through a Tape; a run is a pure function of (tape, code).
package sim

import (
	"sync"
	"encoding/binary"
	"hash/fnv"
)

// SplitMix64 is the only PRNG used anywhere in a simulation.
type SplitMix64 struct{ s uint64 }

func NewSplitMix64(seed uint64) *SplitMix64 { return &SplitMix64{s: seed} }

func (r *SplitMix64) Next() uint64 {
	r.s += 0x9e3779b97f4a7c15
	z := r.s
	z = (z ^ (z >> 30)) * 0xbf58476d1ce4e5b9
	z = (z ^ (z >> 27)) * 0x94d049bb133111eb
	return z ^ (z >> 31)
}

// Mix derives the seed of sub-stream/run i from a root seed.
func Mix(seed uint64, i uint64) uint64 {
	r := SplitMix64{s: seed ^ (i+1)*0xd1342543de82ef95}
	r.Next()
	return r.Next()
}

func hashLabel(l string) uint64 {
	h := fnv.New64a()
	h.Write([]byte(l))
	return h.Sum64()
}

// Entry is one recorded decision.
type Entry struct {
	L string `json:"l"` // label (stream)
	N int    `json:"n"` // number of alternatives offered
	V int    `json:"v"` // alternative taken
}

// Tape is the choice source of one run. In search mode every label has its own
// PRNG sub-stream (so a new draw in one component never shifts another) and all
// decisions are recorded in draw order. In replay mode decisions are read back
// in order; when the tape is exhausted, or holds a value that is out of range
// for the alternative count now offered, the simplest alternative (0) or the
// value modulo n is used - this is what makes tape-level shrinking possible.
type Tape struct {
	Seed    uint64
	replay  bool
	in      []Entry
	pos     int
	Rec     []Entry
	streams map[string]*SplitMix64
	// Overrun counts replay draws past the end of the tape.
	Overrun int
	// Limit, when >0, caps the number of draws (runaway guard); beyond it 0 is returned.
	Limit int
}

func NewSearchTape(seed uint64) *Tape {
	return &Tape{Seed: seed, streams: map[string]*SplitMix64{}}
}

func NewReplayTape(seed uint64, in []Entry) *Tape {
	return &Tape{Seed: seed, replay: true, in: in, streams: map[string]*SplitMix64{}}
}

func (t *Tape) stream(label string) *SplitMix64 {
	s, ok := t.streams[label]
	if !ok {
		s = NewSplitMix64(Mix(t.Seed, hashLabel(label)))
		t.streams[label] = s
	}
	return s
}

// Choose returns a value in [0,n). n<=1 returns 0 without recording.
func (t *Tape) Choose(label string, n int) int {
	if n <= 1 {
		return 0
	}
	if t.Limit > 0 && len(t.Rec) >= t.Limit {
		return 0
	}
	var v int
	if t.replay {
		if t.pos < len(t.in) {
			v = t.in[t.pos].V
			t.pos++
			if v < 0 {
				v = 0
			}
			if v >= n {
				v = v % n
			}
		} else {
			t.Overrun++
			v = 0
		}
	} else {
		v = int(t.stream(label).Next() % uint64(n))
	}
	t.Rec = append(t.Rec, Entry{L: label, N: n, V: v})
	return v
}

// Bool is true with probability num/den; alternative 0 (the shrink target) is false.
func (t *Tape) Bool(label string, num, den int) bool {
	if num <= 0 {
		return false
	}
	v := t.Choose(label, den)
	return v >= den-num
}

// Range returns a value in [lo,hi].
func (t *Tape) Range(label string, lo, hi int) int {
	if hi <= lo {
		return lo
	}
	return lo + t.Choose(label, hi-lo+1)
}

// Weighted picks index i with probability w[i]/sum(w); zero weights are never picked.
func (t *Tape) Weighted(label string, w []int) int {
	sum := 0
	for _, x := range w {
		if x > 0 {
			sum += x
		}
	}
	if sum == 0 {
		return 0
	}
	v := t.Choose(label, sum)
	for i, x := range w {
		if x <= 0 {
			continue
		}
		if v < x {
			return i
		}
		v -= x
	}
	return len(w) - 1
}

// DetBytes derives k bytes deterministically from (domain, idx): used for seeds,
// passphrases, payloads - the tape then only carries the small index.
func DetBytes(domain string, idx uint64, k int) []byte {
	r := NewSplitMix64(Mix(hashLabel(domain), idx))
	out := make([]byte, 0, k+8)
	var b [8]byte
	for len(out) < k {
		binary.LittleEndian.PutUint64(b[:], r.Next())
		out = append(out, b[:]...)
	}
	return out[:k]
}

// DetReader is a deterministic io.Reader (replacement for crypto/rand.Reader in sims).
type DetReader struct {
	mu sync.Mutex
	r  *SplitMix64
}

func NewDetReader(seed uint64) *DetReader { return &DetReader{r: NewSplitMix64(seed)} }

func (d *DetReader) Read(p []byte) (int, error) {
	d.mu.Lock()
	defer d.mu.Unlock()
	var b [8]byte
	for i := 0; i < len(p); {
		binary.LittleEndian.PutUint64(b[:], d.r.Next())
		i += copy(p[i:], b[:])
	}
	return len(p), nil
}
