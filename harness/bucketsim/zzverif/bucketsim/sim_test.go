//go:build go1.23

// bucket-sim (C19): the real ldb bucket store over real goleveldb over the simulated disk,
// driven by tape-generated transactions and compared operation by operation with the
// tree-of-maps reference model; restarts, process crashes and power losses are ordinary
// generated operations.
package bucketsim

import (
	"bytes"
	"fmt"
	"hash/fnv"
	"sort"
	"strings"
	"testing"

	walletdb "massnet.org/mass/poc/wallet/db"
	_ "massnet.org/mass/poc/wallet/db/ldb"
	"verif/sim"
	"verif/sim/model"
	"verif/sim/vos"
)

func TestSim(t *testing.T) {
	sim.Main(map[string]sim.RunFunc{"C19": runC19})
}

var names = []string{"a", "b", "ab", "1", "2", "10", "a_b", "", "_", "b_2_x", "km", "aid", "A", "\x00", "x\xff"}
var keys = []string{"k", "a", "a_b", "_", "\x00", "\xff", "b_1_a", "1_a_k", "a\x00", "", "ab", "k2", "2_a_b_k", "b", "_k"}

func longName(n int, c byte) string { return strings.Repeat(string([]byte{c}), n) }

type handle struct {
	b    walletdb.Bucket
	path []string
}

type state struct {
	r     *sim.Run
	disk  *vos.Disk
	db    walletdb.DB
	comm  *model.Bucket // committed state (root: subs = top-level buckets)
	work  *model.Bucket // state inside the open write transaction
	wtx   walletdb.DBTransaction
	rtx   walletdb.ReadTransaction
	hs    []handle
	metas []metaRef
	vctr  int
	// deep-nesting mode
	maxDepth int
	forceNew bool
}

type metaRef struct {
	m    walletdb.BucketMeta
	path []string
}

func (s *state) cur() *model.Bucket {
	if s.wtx != nil {
		return s.work
	}
	return s.comm
}

func (s *state) pickName() string {
	t := s.r.T
	i := t.Choose("name", len(names)+3)
	switch {
	case i < len(names):
		return names[i]
	case i == len(names):
		return longName(256, 'L')
	case i == len(names)+1:
		return longName(257, 'L')
	default:
		return longName(256, 'M')
	}
}

func (s *state) pickKey() []byte {
	i := s.r.T.Choose("key", len(keys))
	return []byte(keys[i])
}

func (s *state) newValue() []byte {
	s.vctr++
	if s.r.T.Bool("emptyval", 1, 12) {
		return []byte{}
	}
	return []byte(fmt.Sprintf("v%d", s.vctr))
}

const dbPath = "/w/keystore"

func (s *state) fail(check, format string, args ...interface{}) {
	s.r.Fail("C19/"+check, format, args...)
}

func pathStr(p []string) string {
	q := make([]string, len(p))
	for i, x := range p {
		q[i] = model.Quote(x)
	}
	return "/" + strings.Join(q, "/")
}

func runC19(r *sim.Run) {
	t := r.T
	disk := vos.New()
	vos.Cur = disk
	r.StepBudget = 400000
	disk.StepFn = r.Step
	disk.DirVolatile = t.Bool("dirvolatile", 1, 2)
	vos.Knobs.WriteBuffer = []int{64 << 10, 256 << 10, 1 << 20}[t.Choose("knob.wb", 3)]
	vos.Knobs.BlockCache = []int{8 << 10, 1 << 20}[t.Choose("knob.bc", 2)]
	faults := r.Config == "powerloss"

	s := &state{r: r, disk: disk, comm: model.NewBucket()}
	// one run in five nests deeply (the flat key layout carries the depth as a decimal number:
	// two digits from depth 10 on)
	s.maxDepth = 4
	if t.Bool("deep", 1, 5) {
		s.maxDepth = 13
	}
	db, err := walletdb.CreateDB("leveldb", dbPath)
	if err != nil {
		sim.EngineError("create db: %v", err)
	}
	s.db = db
	defer func() {
		if s.db != nil {
			s.closeTx()
			s.db.Close()
		}
	}()

	nops := t.Range("nops", 5, 60)
	if s.maxDepth > 4 {
		nops += 30
	}
	for i := 0; i < nops && !r.Failed(); i++ {
		s.step(faults)
		r.State(hashStr(s.comm.Digest()))
	}
	if r.Failed() {
		return
	}
	// final: close any tx by rollback, reopen, compare everything
	s.closeTx()
	s.reopen("final-reopen", 0)
}

func hashStr(x string) uint64 {
	h := fnv.New64a()
	h.Write([]byte(x))
	return h.Sum64()
}

func (s *state) closeTx() {
	if s.wtx != nil {
		s.wtx.Rollback()
		s.wtx, s.work = nil, nil
	}
	if s.rtx != nil {
		s.rtx.Rollback()
		s.rtx = nil
	}
	s.hs = nil
}

// reopen: kind 0 graceful close, 1 process crash, 2 power loss
func (s *state) reopen(what string, kind int) {
	r := s.r
	switch kind {
	case 0:
		if err := s.db.Close(); err != nil {
			s.fail("close", "Close failed: %v", err)
		}
	case 1:
		s.disk.Crash()
		s.db.Close() // reap the dead process's goroutines; its storage is fenced
		r.Fault("process-crash")
	case 2:
		s.disk.PowerLoss(r.T.Choose)
		s.db.Close()
		r.Fault("power-loss")
	}
	s.wtx, s.rtx, s.work, s.hs = nil, nil, nil, nil
	s.db = nil
	db, err := walletdb.OpenDB("leveldb", dbPath)
	r.Event("%s -> err=%v", what, err)
	if err != nil {
		s.fail("reopen", "%s: store does not open again: %v", what, err)
		return
	}
	s.db = db
	s.compareAll(what)
}

// compareAll reads the whole store through a read transaction and compares with the committed model.
func (s *state) compareAll(what string) {
	err := walletdb.View(s.db, func(tx walletdb.ReadTransaction) error {
		got, err := tx.BucketNames()
		if err != nil {
			s.fail("after-"+what+"/names", "top-level BucketNames: %v", err)
			return nil
		}
		sort.Strings(got)
		want := s.comm.Names()
		if !eqStrings(got, want) {
			s.fail("after-"+what+"/names", "top-level buckets %q, model %q", got, want)
			return nil
		}
		for _, n := range want {
			b := tx.TopLevelBucket(n)
			if b == nil {
				s.fail("after-"+what+"/bucket", "top-level bucket %s missing", model.Quote(n))
				return nil
			}
			s.compareBucket(what, b, s.comm.Subs[n], []string{n})
		}
		return nil
	})
	if err != nil {
		s.fail("after-"+what+"/view", "View: %v", err)
	}
}

func (s *state) compareBucket(what string, b walletdb.Bucket, m *model.Bucket, path []string) {
	ents, err := b.GetByPrefix(nil)
	if err != nil {
		s.fail("after-"+what+"/scan", "GetByPrefix(nil) in %s: %v", pathStr(path), err)
		return
	}
	if d := diffEntries(ents, m.Prefix(nil)); d != "" {
		s.fail("after-"+what+"/content", "bucket %s: %s", pathStr(path), d)
		return
	}
	got, err := b.BucketNames()
	if err != nil {
		s.fail("after-"+what+"/names", "BucketNames in %s: %v", pathStr(path), err)
		return
	}
	sort.Strings(got)
	if !eqStrings(got, m.Names()) {
		s.fail("after-"+what+"/names", "sub-buckets of %s: %q, model %q", pathStr(path), got, m.Names())
		return
	}
	for _, n := range m.Names() {
		sb := b.Bucket(n)
		if sb == nil {
			s.fail("after-"+what+"/bucket", "sub-bucket %s of %s missing", model.Quote(n), pathStr(path))
			return
		}
		s.compareBucket(what, sb, m.Subs[n], append(append([]string{}, path...), n))
	}
}

func eqStrings(a, b []string) bool {
	if len(a) != len(b) {
		return false
	}
	for i := range a {
		if a[i] != b[i] {
			return false
		}
	}
	return true
}

func diffEntries(got []*walletdb.Entry, want []model.KVEntry) string {
	g := make([]model.KVEntry, 0, len(got))
	for _, e := range got {
		g = append(g, model.KVEntry{K: e.Key, V: e.Value})
	}
	sort.Slice(g, func(i, j int) bool { return bytes.Compare(g[i].K, g[j].K) < 0 })
	if len(g) != len(want) {
		return fmt.Sprintf("%d entries, model has %d (got %s, want %s)", len(g), len(want), renderEntries(g), renderEntries(want))
	}
	for i := range g {
		if !bytes.Equal(g[i].K, want[i].K) || !bytes.Equal(g[i].V, want[i].V) {
			return fmt.Sprintf("entry %d is %s=%s, model %s=%s", i, model.Quote(string(g[i].K)), model.Quote(string(g[i].V)), model.Quote(string(want[i].K)), model.Quote(string(want[i].V)))
		}
	}
	return ""
}

func renderEntries(e []model.KVEntry) string {
	var sb strings.Builder
	sb.WriteString("[")
	for i, x := range e {
		if i > 0 {
			sb.WriteString(" ")
		}
		sb.WriteString(model.Quote(string(x.K)) + "=" + model.Quote(string(x.V)))
	}
	sb.WriteString("]")
	return sb.String()
}

func (s *state) step(faults bool) {
	r, t := s.r, s.r.T
	r.Ops++
	if s.wtx == nil && s.rtx == nil {
		w := []int{10, 4, 2, 0, 0}
		if faults {
			w[3], w[4] = 2, 3
		}
		switch t.Weighted("op.idle", w) {
		case 0:
			tx, err := s.db.BeginTx()
			r.Event("BeginTx err=%v", err)
			if err != nil {
				s.fail("begin", "BeginTx: %v", err)
				return
			}
			s.wtx, s.work = tx, s.comm.Clone()
		case 1:
			tx, err := s.db.BeginReadTx()
			r.Event("BeginReadTx err=%v", err)
			if err != nil {
				s.fail("begin", "BeginReadTx: %v", err)
				return
			}
			s.rtx = tx
		case 2:
			s.reopen("reopen", 0)
		case 3:
			s.reopen("crash-reopen", 1)
		case 4:
			s.reopen("powerloss-reopen", 2)
		}
		return
	}
	if s.rtx != nil {
		s.readTxStep()
		return
	}
	s.writeTxStep(faults)
}

func (s *state) addHandle(b walletdb.Bucket, path []string) {
	s.hs = append(s.hs, handle{b, path})
	if len(s.metas) < 12 {
		s.metas = append(s.metas, metaRef{b.GetBucketMeta(), path})
	}
}

// liveHandles drops handles whose bucket no longer exists in the model (a handle to a
// removed bucket is API misuse, which the property does not cover).
func (s *state) liveHandles() []handle {
	var out []handle
	for _, h := range s.hs {
		if s.cur().Walk(h.path) != nil {
			out = append(out, h)
		}
	}
	s.hs = out
	return out
}

func (s *state) checkBucketPresence(op string, got walletdb.Bucket, path []string) bool {
	m := s.cur().Walk(path)
	if (got == nil) != (m == nil) {
		s.fail(op+"/presence", "%s(%s) returned nil=%v but model has bucket=%v", op, pathStr(path), got == nil, m != nil)
		return false
	}
	return got != nil
}

func (s *state) readOps(h handle) {
	r, t := s.r, s.r.T
	m := s.cur().Walk(h.path)
	switch t.Choose("op.read", 4) {
	case 0:
		k := s.pickKey()
		v, err := h.b.Get(k)
		r.Event("Get %s %s -> %s err=%v", pathStr(h.path), model.Quote(string(k)), model.Quote(string(v)), err)
		if err != nil {
			s.fail("get/error", "Get(%s) in %s: %v", model.Quote(string(k)), pathStr(h.path), err)
			return
		}
		want, ok := m.KV[string(k)]
		if !ok || len(k) == 0 {
			if v != nil {
				s.fail("get/phantom", "Get(%s) in %s returned %s, model has no such key", model.Quote(string(k)), pathStr(h.path), model.Quote(string(v)))
			}
			return
		}
		if !bytes.Equal(v, want) {
			s.fail("get/value", "Get(%s) in %s returned %s, model %s", model.Quote(string(k)), pathStr(h.path), model.Quote(string(v)), model.Quote(string(want)))
		}
	case 1:
		p := s.pickKey()
		if t.Bool("prefix.short", 1, 2) && len(p) > 1 {
			p = p[:1]
		}
		ents, err := h.b.GetByPrefix(p)
		r.Event("GetByPrefix %s %s -> %d err=%v", pathStr(h.path), model.Quote(string(p)), len(ents), err)
		if err != nil {
			s.fail("prefix/error", "GetByPrefix(%s) in %s: %v", model.Quote(string(p)), pathStr(h.path), err)
			return
		}
		if d := diffEntries(ents, m.Prefix(p)); d != "" {
			s.fail("prefix/content", "GetByPrefix(%s) in %s: %s", model.Quote(string(p)), pathStr(h.path), d)
		}
	case 2:
		got, err := h.b.BucketNames()
		r.Event("BucketNames %s -> %q err=%v", pathStr(h.path), got, err)
		if err != nil {
			s.fail("names/error", "BucketNames in %s: %v", pathStr(h.path), err)
			return
		}
		sort.Strings(got)
		if !eqStrings(got, m.Names()) {
			s.fail("names/content", "BucketNames in %s = %q, model %q", pathStr(h.path), got, m.Names())
		}
	case 3:
		n := s.pickName()
		b := h.b.Bucket(n)
		p := append(append([]string{}, h.path...), n)
		r.Event("Bucket %s -> nil=%v", pathStr(p), b == nil)
		if s.checkBucketPresence("Bucket", b, p) {
			s.addHandle(b, p)
		}
	}
}

func (s *state) txLevelRead(tl interface {
	TopLevelBucket(string) walletdb.Bucket
	FetchBucket(walletdb.BucketMeta) walletdb.Bucket
	BucketNames() ([]string, error)
}) {
	r, t := s.r, s.r.T
	switch t.Choose("op.txread", 3) {
	case 0:
		n := s.pickName()
		b := tl.TopLevelBucket(n)
		r.Event("TopLevelBucket %s -> nil=%v", model.Quote(n), b == nil)
		if s.checkBucketPresence("TopLevelBucket", b, []string{n}) {
			s.addHandle(b, []string{n})
		}
	case 1:
		if len(s.metas) == 0 {
			return
		}
		mr := s.metas[t.Choose("meta", len(s.metas))]
		b := tl.FetchBucket(mr.m)
		r.Event("FetchBucket %s -> nil=%v", pathStr(mr.path), b == nil)
		if s.checkBucketPresence("FetchBucket", b, mr.path) {
			s.addHandle(b, mr.path)
		}
	case 2:
		got, err := tl.BucketNames()
		r.Event("tx.BucketNames -> %q err=%v", got, err)
		if err != nil {
			s.fail("names/error", "tx.BucketNames: %v", err)
			return
		}
		sort.Strings(got)
		if !eqStrings(got, s.cur().Names()) {
			s.fail("names/content", "tx.BucketNames = %q, model %q", got, s.cur().Names())
		}
	}
}

func (s *state) readTxStep() {
	r, t := s.r, s.r.T
	hs := s.liveHandles()
	w := []int{3, 0, 0, 1}
	if len(hs) > 0 {
		w[1], w[2] = 6, 1
	}
	switch t.Weighted("op.rtx", w) {
	case 0:
		s.txLevelRead(s.rtx)
	case 1:
		s.readOps(hs[t.Choose("handle", len(hs))])
	case 2:
		// writes through a read transaction must be refused and change nothing
		h := hs[t.Choose("handle", len(hs))]
		var err error
		what := ""
		switch t.Choose("op.rtxwrite", 4) {
		case 0:
			what = "Put"
			err = h.b.Put([]byte("k"), []byte("ro"))
		case 1:
			what = "Delete"
			err = h.b.Delete([]byte("k"))
		case 2:
			what = "Clear"
			err = h.b.Clear()
		case 3:
			what = "NewBucket"
			_, err = h.b.NewBucket("ro")
		}
		r.Event("read-tx %s %s -> err=%v", what, pathStr(h.path), err)
		if err == nil {
			s.fail("readtx/write-accepted", "%s through a read transaction succeeded", what)
		}
	case 3:
		err := s.rtx.Rollback()
		r.Event("read Rollback err=%v", err)
		s.rtx, s.hs = nil, nil
	}
}

func (s *state) writeTxStep(faults bool) {
	r, t := s.r, s.r.T
	hs := s.liveHandles()
	w := []int{3, 3, 0, 0, 2, 1, 0, 0}
	if len(hs) > 0 {
		w[2], w[3] = 8, 12
	}
	if faults {
		w[6], w[7] = 1, 1
	}
	switch t.Weighted("op.wtx", w) {
	case 0:
		s.txLevelRead(s.wtx)
	case 1:
		n := s.pickName()
		b, err := s.wtx.CreateTopLevelBucket(n)
		r.Event("CreateTopLevelBucket %s -> err=%v", model.Quote(n), err)
		_, exists := s.work.Subs[n]
		switch {
		case !model.ValidBucketName(n):
			if err != walletdb.ErrInvalidBucketName {
				s.fail("create/invalid-name", "CreateTopLevelBucket(%s) returned %v, want ErrInvalidBucketName", model.Quote(n), err)
			}
		case exists:
			// either "already exists" or the existing bucket, contents untouched
			if err == nil && b != nil {
				s.addHandle(b, []string{n})
			} else if err != walletdb.ErrBucketExist {
				s.fail("create/existing", "CreateTopLevelBucket(existing %s) returned %v", model.Quote(n), err)
			}
		default:
			if err != nil || b == nil {
				s.fail("create/error", "CreateTopLevelBucket(%s) failed: %v", model.Quote(n), err)
				return
			}
			s.work.Subs[n] = model.NewBucket()
			s.addHandle(b, []string{n})
		}
	case 2:
		s.readOps(hs[t.Choose("handle", len(hs))])
	case 3:
		h := hs[t.Choose("handle", len(hs))]
		if s.maxDepth > 4 && t.Bool("deep.descend", 1, 2) {
			// keep digging below the deepest bucket there is
			for _, x := range hs {
				if len(x.path) > len(h.path) {
					h = x
				}
			}
			s.forceNew = true
		}
		s.mutate(h)
		s.forceNew = false
	case 4:
		err := s.wtx.Commit()
		r.Event("Commit err=%v", err)
		if err != nil {
			s.fail("commit/error", "Commit failed without injected fault: %v", err)
			s.wtx, s.work, s.hs = nil, nil, nil
			return
		}
		s.comm = s.work
		s.wtx, s.work, s.hs = nil, nil, nil
		if t.Bool("verify-after-commit", 1, 3) {
			s.compareAll("commit")
		}
	case 5:
		err := s.wtx.Rollback()
		r.Event("Rollback err=%v", err)
		s.wtx, s.work, s.hs = nil, nil, nil
		if t.Bool("verify-after-rollback", 1, 2) {
			s.compareAll("rollback")
		}
	case 6:
		s.reopen("crash-in-tx", 1)
	case 7:
		s.reopen("powerloss-in-tx", 2)
	}
}

func (s *state) mutate(h handle) {
	r, t := s.r, s.r.T
	m := s.work.Walk(h.path)
	w := []int{10, 4, 2, 4, 3}
	if s.forceNew {
		w = []int{0, 0, 0, 1, 0}
	}
	switch t.Weighted("op.mut", w) {
	case 0:
		k, v := s.pickKey(), s.newValue()
		err := h.b.Put(k, v)
		r.Event("Put %s %s=%s -> err=%v", pathStr(h.path), model.Quote(string(k)), model.Quote(string(v)), err)
		switch {
		case len(k) == 0 || len(v) == 0:
			if err != walletdb.ErrIllegalKey && err != walletdb.ErrIllegalValue {
				s.fail("put/illegal-accepted", "Put(%s,%s) returned %v, want illegal key/value", model.Quote(string(k)), model.Quote(string(v)), err)
			}
			if len(k) != 0 && err == walletdb.ErrIllegalKey || len(v) != 0 && err == walletdb.ErrIllegalValue {
				s.fail("put/illegal-class", "Put(%s,%s) returned the wrong class %v", model.Quote(string(k)), model.Quote(string(v)), err)
			}
		case err != nil:
			s.fail("put/error", "Put(%s) in %s: %v", model.Quote(string(k)), pathStr(h.path), err)
		default:
			m.KV[string(k)] = v
		}
	case 1:
		k := s.pickKey()
		err := h.b.Delete(k)
		r.Event("Delete %s %s -> err=%v", pathStr(h.path), model.Quote(string(k)), err)
		if err != nil {
			s.fail("delete/error", "Delete(%s) in %s: %v", model.Quote(string(k)), pathStr(h.path), err)
			return
		}
		delete(m.KV, string(k))
	case 2:
		err := h.b.Clear()
		r.Event("Clear %s -> err=%v", pathStr(h.path), err)
		if err != nil {
			s.fail("clear/error", "Clear in %s: %v", pathStr(h.path), err)
			return
		}
		m.KV = map[string][]byte{}
	case 3:
		n := s.pickName()
		if s.forceNew {
			n = []string{"a", "b", "ab"}[t.Choose("deep.name", 3)]
		}
		p := append(append([]string{}, h.path...), n)
		if len(p) > s.maxDepth {
			return
		}
		b, err := h.b.NewBucket(n)
		r.Event("NewBucket %s -> err=%v", pathStr(p), err)
		_, exists := m.Subs[n]
		switch {
		case !model.ValidBucketName(n):
			if err != walletdb.ErrInvalidBucketName {
				s.fail("newbucket/invalid-name", "NewBucket(%s) returned %v, want ErrInvalidBucketName", model.Quote(n), err)
			}
		case exists:
			if err != walletdb.ErrBucketExist {
				s.fail("newbucket/existing", "NewBucket(existing %s) returned %v, want ErrBucketExist", pathStr(p), err)
			}
		default:
			if err != nil || b == nil {
				s.fail("newbucket/error", "NewBucket(%s): %v", pathStr(p), err)
				return
			}
			m.Subs[n] = model.NewBucket()
			s.addHandle(b, p)
		}
	case 4:
		n := s.pickName()
		// bias towards existing names
		if names := m.Names(); len(names) > 0 && t.Bool("delbucket.existing", 2, 3) {
			n = names[t.Choose("delbucket.which", len(names))]
		}
		p := append(append([]string{}, h.path...), n)
		err := h.b.DeleteBucket(n)
		r.Event("DeleteBucket %s -> err=%v", pathStr(p), err)
		if err != nil {
			s.fail("deletebucket/error", "DeleteBucket(%s): %v", pathStr(p), err)
			return
		}
		delete(m.Subs, n)
	}
}
