//go:build go1.25

package capacity

import "verif/sim"

func zzRunC09(r *sim.Run) {}
func zzRunC13(r *sim.Run) {}
