//go:build go1.25

package capacity

// keeper-sim, scheduled part (C09, C13): keeper + plotter goroutine + massdb.v1 at bit length 7-8
// inside a synctest bubble; 1-3 client goroutines issue single and bulk actions, queries, bursts,
// keeper stop/start; the tape picks which parked goroutine runs at every inserted yield point.

import (
	"context"
	"fmt"
	"os"
	"sort"
	"strings"
	"time"

	"github.com/massnetorg/mass-core/poc/pocutil"
	"massnet.org/mass/poc/engine"
	massdb_v1 "massnet.org/mass/poc/engine/massdb/massdb.v1"
	"verif/sim"
	"verif/sim/vos"
	"verif/sim/vsim"
)

type zzCall struct {
	client   int
	what     string // plot mine stop remove delete | bulk-* | query | proofs | keeper-stop | keeper-start
	sid      string
	inv, ret int // global event numbers; ret = 0 while in flight
	err      error
	acted    map[string]error // bulk actions: the spaces the keeper acted on
	all      bool             // bulk action with the all-states filter: covers every space, whatever its state
}

// applies reports whether call c (a single or bulk action) concerned space sid.
func (c *zzCall) applies(sid string) bool {
	if c.acted != nil {
		_, ok := c.acted[sid]
		return ok || c.all || c.ret == 0 // in flight: may still reach it
	}
	return c.sid == sid || c.sid == ""
}

type zzBub struct {
	r       *sim.Run
	focus   string
	b       *vsim.Bubble
	e       *zzEnvK
	sk      *SpaceKeeper
	seq     int
	calls   []*zzCall
	sids    []string
	last    map[string]string // sid -> last observed state
	hist    map[string][]string
	nClientsDone int
	nClients     int
	stopReq map[string]int
	trans   map[string][]zzTrans // observed state changes per space, with their event numbers
}

type zzTrans struct {
	seq   int
	state string
}

// stateAt: the last state observed for sid at or before event e.
func (z *zzBub) stateAt(sid string, e int) string {
	st := ""
	for _, t := range z.trans[sid] {
		if t.seq <= e {
			st = t.state
		}
	}
	return st
}

func (z *zzBub) fail(prop, check, format string, args ...interface{}) {
	if prop == z.focus {
		z.r.Fail(prop+"/"+check, format, args...)
	} else {
		z.r.Count("offfocus:"+prop+"/"+check, 1)
	}
}

func (z *zzBub) begin(client int, what, sid string) *zzCall {
	z.seq++
	c := &zzCall{client: client, what: what, sid: sid, inv: z.seq}
	z.calls = append(z.calls, c)
	return c
}

func (z *zzBub) end(c *zzCall, err error) {
	z.seq++
	c.ret, c.err = z.seq, err
	z.r.Event("c%d %s %s -> %v", c.client, c.what, zzShortSid(c.sid), err)
}

func zzShortSid(s string) string {
	if len(s) > 8 {
		return s[:8]
	}
	return s
}

var zzLegal = map[string]bool{
	"registered>plotting": true, "plotting>ready": true, "plotting>mining": true, "plotting>registered": true,
	"ready>mining": true, "mining>ready": true, "registered>ready": true,
	"registered>absent": true, "ready>absent": true,
}

// zzReachable: cur can be reached from prev along at most n documented transitions (the observer
// skips the moments at which the state lock is held, so intermediate states may go unseen).
func zzReachable(prev, cur string, n int) bool {
	if n == 0 {
		return false
	}
	if zzLegal[prev+">"+cur] {
		return true
	}
	for _, mid := range []string{"registered", "plotting", "ready", "mining"} {
		if zzLegal[prev+">"+mid] && zzReachable(mid, cur, n-1) {
			return true
		}
	}
	return false
}

// observe is called by the scheduler whenever everything is parked or blocked.
func (z *zzBub) observe() {
	sk := z.sk
	if sk == nil {
		return
	}
	// (the keeper's transitions contain no scheduling point between their index updates, so the
	// indexes are consistent at every quiescent moment, also while someone holds the state lock)
	z.seq++
	all := sk.workSpaceIndex[allState].Items()
	nPlotting := 0
	for _, sid := range z.sids {
		ws, ok := all[sid]
		cur := "absent"
		if ok {
			n := 0
			where := ""
			for s := engine.FirstState; s <= engine.LastState; s++ {
				if _, in := sk.workSpaceIndex[s].Get(sid); in {
					n++
					where = s.String()
				}
			}
			if n != 1 {
				z.fail("C09", "not-exactly-one-state/index", "space %s is in %d state indexes", zzShortSid(sid), n)
				return
			}
			if where != ws.state.String() {
				z.fail("C09", "state-field-disagrees/index", "space %s is indexed as %s but its state field says %s", zzShortSid(sid), where, ws.state)
				return
			}
			cur = where
			if cur == "plotting" {
				nPlotting++
			}
		}
		prev := z.last[sid]
		if prev != cur {
			z.r.Event("  state %s: %s -> %s (event %d)", zzShortSid(sid), prev, cur, z.seq)
			if prev != "" && !zzReachable(prev, cur, 3) {
				z.fail("C09", "undocumented-transition/"+prev+">"+cur, "space %s went from %s to %s", zzShortSid(sid), prev, cur)
			}
			if cur == "plotting" || cur == "mining" {
				z.checkAsked(sid, cur)
			}
			if prev == "plotting" && (cur == "ready" || cur == "mining") {
				z.checkLastRequestWins(sid, cur)
			}
			z.last[sid] = cur
			z.hist[sid] = append(z.hist[sid], cur)
			if z.trans == nil {
				z.trans = map[string][]zzTrans{}
			}
			z.trans[sid] = append(z.trans[sid], zzTrans{z.seq, cur})
		}
	}
	if nPlotting > 1 {
		z.fail("C09", "two-spaces-plotting/index", "%d spaces are plotting at the same time", nPlotting)
	}
	z.r.State(zzH(fmt.Sprint(z.last)))
}

// checkAsked: a space enters plotting (or mining) only if a plot/mine request could still be in
// effect: some such request was invoked, and it did not complete before the invocation of the
// latest completed stop for this space.
func (z *zzBub) checkAsked(sid, entering string) {
	lastStopInv, lastStopRet := 0, 0
	for _, c := range z.calls {
		if (c.what == "stop" && c.sid == sid || c.what == "bulk-stop" && c.applies(sid) && c.acted[sid] == nil || c.what == "keeper-stop") && c.ret != 0 && c.err == nil {
			if c.inv > lastStopInv {
				lastStopInv, lastStopRet = c.inv, c.ret
			}
		}
	}
	asked := false
	for _, c := range z.calls {
		switch {
		case (c.what == "plot" || c.what == "mine" || c.what == "burst-plot" || c.what == "burst-mine") && c.sid == sid,
			(c.what == "bulk-plot" || c.what == "bulk-mine") && c.applies(sid), c.what == "configure-exec":
			if entering == "mining" && !(strings.Contains(c.what, "mine") || c.what == "configure-exec") {
				continue
			}
			if c.ret == 0 || c.ret > lastStopInv {
				asked = true
			}
		}
	}
	if !asked {
		z.fail("C09", "plotted-after-stop/"+entering, "space %s entered %s at event %d although every plot/mine request for it had completed before the stop invoked at event %d (returned at %d), and nothing asked again",
			zzShortSid(sid), entering, z.seq, lastStopInv, lastStopRet)
	}
}

// checkAcceptedRequests: the clients are done and the plotter has come to rest. A space for which a
// plot or mine request was acknowledged, and for which no stop, remove, delete or keeper stop was
// even invoked afterwards, has made the documented transition: it is not registered any more.
func (z *zzBub) checkAcceptedRequests() {
	sk := z.sk
	// (called by the scheduler itself while every goroutine is parked: the queue is read without
	// its mutex, which a parked plotter may hold)
	if !sk.Started() || len(sk.newQueuedWorkSpaceCh) > 0 || sk.queue.Prque.Size() > 0 {
		return
	}
	for _, sid := range z.sids {
		if z.last[sid] == "plotting" {
			return // still working (step budget of the drain phase): nothing can be said
		}
	}
	for _, sid := range z.sids {
		if z.last[sid] != "registered" {
			continue
		}
		var req *zzCall
		for _, c := range z.calls {
			single := (c.what == "plot" || c.what == "mine" || c.what == "burst-plot" || c.what == "burst-mine") && c.sid == sid
			bulk := false
			if c.what == "bulk-plot" || c.what == "bulk-mine" {
				// the keeper itself says it accepted the request for this space
				e, ok := c.acted[sid]
				bulk = ok && e == nil
			}
			cfg := c.what == "configure-exec"
			// (a request that meets the space while it is plotting - also while an acknowledged stop has
			// not taken effect yet - is a documented no-op: only requests to a registered space count)
			if (single || bulk || cfg) && c.ret != 0 && c.err == nil && (cfg || (z.stateAt(sid, c.inv) == "registered" && z.stateAt(sid, c.ret) != "absent")) {
				req = c
			}
		}
		if req == nil {
			continue
		}
		voided := false
		for _, c := range z.calls {
			switch {
			case c.what == "stop" || c.what == "remove" || c.what == "delete":
				voided = voided || (c.sid == sid && (c.ret == 0 || c.ret > req.inv))
			case strings.HasPrefix(c.what, "bulk-") && !strings.Contains(c.what, "plot") && !strings.Contains(c.what, "mine"):
				voided = voided || c.ret == 0 || c.ret > req.inv
			case c.what == "keeper-stop" || c.what == "keeper-start" || strings.HasPrefix(c.what, "configure"):
				voided = voided || (c != req && (c.ret == 0 || c.ret > req.inv))
			}
		}
		if !voided {
			z.fail("C09", "accepted-request-without-effect/"+strings.TrimPrefix(strings.TrimPrefix(req.what, "bulk-"), "burst-"), "space %s is still registered although %s (events %d..%d) was acknowledged, nothing stopped, removed or deleted it afterwards, and the plotter has nothing left to do", zzShortSid(sid), req.what, req.inv, req.ret)
		}
	}
}

// checkLastRequestWins: a plot that completes leaves the space ready or mining. Both plot and mine
// are documented for a plotting space (plot: plotting -> ready, mine: plotting -> mining), so when
// the last acknowledged request that met the space while it was plotting came strictly after
// every request of the other kind had returned, it decides the outcome.
func (z *zzBub) checkLastRequestWins(sid, now string) {
	var last *zzCall
	lastOther := 0 // latest return of a request of the other kind
	kindOf := func(c *zzCall) string {
		if c.ret == 0 || c.err != nil {
			return ""
		}
		bulkOK := false
		if e, ok := c.acted[sid]; ok && e == nil {
			bulkOK = true
		}
		switch {
		case (c.what == "plot" || c.what == "burst-plot") && c.sid == sid, c.what == "bulk-plot" && bulkOK:
			return "plot"
		case (c.what == "mine" || c.what == "burst-mine") && c.sid == sid, c.what == "bulk-mine" && bulkOK:
			return "mine"
		}
		return ""
	}
	for _, c := range z.calls {
		if k := kindOf(c); k != "" && c.ret < z.seq && (last == nil || c.inv > last.inv) {
			last = c
		}
	}
	if last == nil || z.stateAt(sid, last.inv) != "plotting" || z.stateAt(sid, last.ret) != "plotting" {
		return
	}
	lk := kindOf(last)
	for _, c := range z.calls {
		k := kindOf(c)
		if c.ret == 0 && (strings.Contains(c.what, "plot") || strings.Contains(c.what, "mine")) && (c.sid == sid || c.sid == "") {
			return // a request is still in flight: either outcome can be explained
		}
		if k != "" && k != lk && c.ret > lastOther {
			lastOther = c.ret
		}
	}
	if lastOther >= last.inv {
		return // the two kinds overlapped: no order is implied
	}
	for _, c := range z.calls {
		stopLike := (c.what == "stop" && c.sid == sid) || c.what == "bulk-stop" || c.what == "keeper-stop" || c.what == "keeper-start" ||
			((c.what == "remove" || c.what == "delete") && c.sid == sid) || c.what == "bulk-remove" || c.what == "bulk-delete"
		if stopLike && (c.ret == 0 || c.ret > last.inv) {
			return // a stop came after it: the stop decides
		}
	}
	want := map[string]string{"plot": "ready", "mine": "mining"}[lk]
	if now != want {
		z.fail("C09", "last-request-ignored/"+lk, "space %s finished plotting and became %s; the last request it was given while plotting was %s (events %d..%d, after every %s request had returned), which is documented to lead to %s",
			zzShortSid(sid), now, last.what, last.inv, last.ret, map[string]string{"plot": "mine", "mine": "plot"}[lk], want)
	}
}

func zzRunC09(r *sim.Run) { zzRunBubble(r, "C09") }
func zzRunC13(r *sim.Run) { zzRunBubble(r, "C13") }

func zzRunBubble(r *sim.Run, focus string) {
	t := r.T
	z := &zzBub{r: r, focus: focus, last: map[string]string{}, hist: map[string][]string{}, stopReq: map[string]int{}}
	b := vsim.NewBubble(t.Choose)
	z.b = b
	b.OnQuiescent = z.observe
	if os.Getenv("VERIF_SCHEDTRACE") != "" {
		b.Trace = func(f string, a ...interface{}) { r.Event("    "+f, a...) }
	}
	vsim.TakePanics()
	bl := 7 + t.Choose("bl", 2)
	nspaces := 1 + t.Choose("nspaces", 3)
	z.nClients = 1 + t.Choose("nclients", 3)
	burstMax := 0
	if focus == "C13" && t.Bool("bursts", 1, 2) {
		burstMax = []int{8, 64, 1100, 2300}[t.Choose("burst.max", 4)]
	}
	// a slow disk: for a stretch of the run the goroutine that does the plotting work is passed
	// over while anybody else can run (requests pile up behind a plot that does not advance)
	if t.Bool("stall.plot", 1, 3) {
		from := t.Choose("stall.from", 300)
		length := []int{300, 3000, 40000}[t.Choose("stall.len", 3)]
		b.Stalled = func(site string, step int) bool {
			return step >= from && step < from+length && strings.Contains(site, "massdb")
		}
	}
	maxSteps := 8000 + burstMax*3*10
	var stopHung, clientsHung bool
	var liveAfter []string
	var liveBase int

	leaked, perr := vsim.RunBubble(zzTestingT, b, func() {
		e := zzNewEnvK(r, 1)
		r.StepBudget = 0
		e.disk.StepFn = nil
		z.e = e
		e.wallet.Unlock(nil)
		// plots run through several memory windows so that a stop can land inside a plot
		massdb_v1.VerifCacheSize = func(req uint64) (uint64, bool) {
			sz := req / uint64(1+t.Choose("win.div", 4))
			if sz < 8 {
				sz = 8
			}
			if sz > req {
				sz = req
			}
			return sz, true
		}
		defer func() { massdb_v1.VerifCacheSize = nil }()
		sk, err := e.newKeeper(e.dirs)
		if err != nil {
			sim.EngineError("keeper: %v", err)
		}
		z.sk = sk
		e.sk = sk
		execPlot := t.Bool("cfg.plot", 1, 3)
		execMine := t.Bool("cfg.mine", 1, 4)
		cfg := z.begin(0, zzIfS(execPlot || execMine, "configure-exec", "configure"), "")
		infos, err := sk.ConfigureByBitLength(map[int]int{bl: nspaces}, execPlot, execMine)
		z.end(cfg, err)
		if err != nil {
			sim.EngineError("configure: %v", err)
		}
		for _, in := range infos {
			z.sids = append(z.sids, in.SpaceID)
		}
		sort.Strings(z.sids)
		liveBase = len(b.LiveGoroutines())
		if err := sk.Start(); err != nil {
			sim.EngineError("start: %v", err)
		}
		for c := 1; c <= z.nClients; c++ {
			c := c
			nops := 2 + t.Choose("client.nops", 9)
			ops := make([]func(), 0, nops)
			for i := 0; i < nops; i++ {
				ops = append(ops, z.genOp(c, burstMax))
			}
			b.Go(fmt.Sprintf("client-%d", c), func() {
				for _, op := range ops {
					op()
				}
				z.nClientsDone++
			})
		}
		reason := b.RunUntil(func() bool { return z.nClientsDone == z.nClients }, 30*time.Minute, maxSteps, true)
		r.SimTime += 0
		if reason == vsim.Budget {
			// the scheduling-step budget ran out while requests were still being served: inconclusive
			clientsHung = true
			r.Count("inconclusive:step-budget", 1)
		} else if reason != vsim.Done {
			clientsHung = true
			z.reportHang(reason, "while client requests were outstanding")
		}
		if !clientsHung && !r.Failed() {
			// let the plotter drain: liveness is stated only once the clients have stopped issuing requests
			idle := func() bool { return false }
			b.RunUntil(idle, 10*time.Minute, 4000, false)
			z.quiescentChecks()
		}
		if !clientsHung && !r.Failed() {
			z.checkAcceptedRequests()
		}
		// keeper shutdown must terminate
		if !r.Failed() && !clientsHung {
			stopped := false
			b.Go("stopper", func() {
				c := z.begin(9, "keeper-stop", "")
				err := sk.Stop()
				z.end(c, err)
				stopped = true
			})
			reason := b.RunUntil(func() bool { return stopped }, 30*time.Minute, 4000, false)
			if reason != vsim.Done {
				stopHung = true
				z.fail("C13", "keeper-stop-hangs/"+zzReason(reason), "SpaceKeeper.Stop did not return (%s); live goroutines: %v", zzReason(reason), b.LiveGoroutines())
			} else {
				b.RunUntil(func() bool { return false }, time.Minute, 500, false)
				liveAfter = b.LiveGoroutines()
			}
		}
		for _, gp := range vsim.TakePanics() {
			z.fail("C13", "panic/"+sim.PanicSite(gp.Stack), "goroutine %s panicked: %v", gp.Site, gp.Val)
		}
		// end of run: release what the harness created, kill what is still parked
		for _, ws := range sk.workSpaceIndex[allState].Items() {
			_ = ws
		}
		sk.workerPool.Release()
		b.KillAll()
	})
	r.Preempts += b.Preempt
	r.Ops += len(z.calls)
	r.Count("sched-steps", b.Steps)
	if b.StalledSteps > 0 {
		r.Fault("plot-goroutine-stalled")
	}
	for site, n := range b.Sites {
		if n > 0 && strings.Contains(site, "space_plotter.go") {
			r.Count("site:"+site[strings.LastIndex(site, "/")+1:], n)
		}
	}
	if perr != nil {
		r.Event("bubble ended with panic: %v", perr)
		z.fail("C13", "panic/bubble", "bubble ended with panic: %v", perr)
	}
	_ = leaked
	if !stopHung && !clientsHung && !r.Failed() && len(liveAfter) > liveBase {
		z.fail("C13", "goroutine-leak/after-stop", "after Stop returned, keeper goroutines are still alive: %v", liveAfter)
	}
}

func zzReason(s vsim.StopReason) string {
	return [...]string{"done", "everything blocked", "time horizon", "step budget"}[s]
}

func (z *zzBub) reportHang(reason vsim.StopReason, when string) {
	var inflight []string
	for _, c := range z.calls {
		if c.ret == 0 {
			inflight = append(inflight, fmt.Sprintf("c%d:%s(%s)", c.client, c.what, zzShortSid(c.sid)))
		}
	}
	what := "unknown"
	if len(inflight) > 0 {
		what = z.calls[len(z.calls)-1].what
		for _, c := range z.calls {
			if c.ret == 0 {
				what = c.what
				break
			}
		}
	}
	z.fail("C13", "request-never-returns/"+what+"/"+zzReason(reason), "%s %s: calls still in flight %v; live goroutines %v; state lock held=%v; hand-off channel %d/%d",
		zzReason(reason), when, inflight, z.b.LiveGoroutines(), z.sk.stateLock.Held(), len(z.sk.newQueuedWorkSpaceCh), cap(z.sk.newQueuedWorkSpaceCh))
}

// quiescentChecks: no client is active and the plotter is idle - queries must agree.
func (z *zzBub) quiescentChecks() {
	sk := z.sk
	done := false
	z.b.Go("query-client", func() {
		defer func() { done = true }()
		flagSets := []engine.WorkSpaceStateFlags{engine.SFRegistered, engine.SFPlotting, engine.SFReady, engine.SFMining, engine.SFAll,
			engine.SFRegistered | engine.SFReady, engine.SFPlotting | engine.SFMining}
		union := map[string]bool{}
		for _, f := range flagSets {
			ids, err1 := sk.WorkSpaceIDs(f)
			infos, err2 := sk.WorkSpaceInfos(f)
			if err1 != nil || err2 != nil {
				continue
			}
			a := append([]string{}, ids...)
			var bb []string
			for _, in := range infos {
				bb = append(bb, in.SpaceID)
				if !f.Contains(in.State.Flag()) && !f.Contains(engine.SFAll) {
					z.fail("C09", "query-state-outside-filter/infos", "WorkSpaceInfos(%v) returned space %s in state %s", f, zzShortSid(in.SpaceID), in.State)
				}
			}
			sort.Strings(a)
			sort.Strings(bb)
			if fmt.Sprint(a) != fmt.Sprint(bb) {
				z.fail("C09", "ids-and-infos-disagree/query", "WorkSpaceIDs(%v) = %v but WorkSpaceInfos gives %v", f, a, bb)
			}
			if f != engine.SFAll && f&(f-1) == 0 {
				for _, id := range a {
					union[id] = true
				}
			}
			if f == engine.SFAll && len(union) != len(a) {
				z.fail("C09", "single-flags-do-not-cover-all/query", "the four single-state listings cover %d spaces, the all-listing has %d", len(union), len(a))
			}
		}
		if sk.Started() {
			var ch pocutil.Hash
			proofs, err := sk.GetProofs(context.Background(), engine.SFMining, ch, false)
			if err == nil {
				for _, p := range proofs {
					if ws, ok := sk.workSpaceIndex[allState].Get(p.SpaceID); !ok || ws.state != engine.Mining {
						z.fail("C09", "non-mining-space-offered/GetProofs", "GetProofs(mining) returned space %s whose state is not mining", zzShortSid(p.SpaceID))
					}
				}
			}
		}
	})
	z.b.RunUntil(func() bool { return done }, 5*time.Minute, 3000, false)
	if !done {
		z.reportHang(vsim.Budget, "during the final queries")
	}
}

// genOp draws one client operation (closures are generated up front: the program of a client
// does not depend on what it observes).
func (z *zzBub) genOp(client, burstMax int) func() {
	t := z.r.T
	sk := z.sk
	pick := func() string { return z.sids[t.Choose("op.sid", len(z.sids))] }
	acts := []engine.ActionType{engine.Plot, engine.Mine, engine.Stop, engine.Remove, engine.Delete}
	names := []string{"plot", "mine", "stop", "remove", "delete"}
	w := []int{8, 6, 8, 2, 2, 3, 3, 0, 0, 4, 3}
	if z.focus == "C13" {
		w = []int{8, 6, 8, 2, 2, 3, 3, 3, 0, 2, 1}
		if burstMax > 0 {
			w[8] = 6
		}
	}
	switch t.Weighted("op.kind", w) {
	case 0, 1, 2, 3, 4:
		k := t.Choose("op.act", 5)
		if k >= 3 && !t.Bool("op.destructive", 1, 3) {
			k = t.Choose("op.act2", 3)
		}
		sid := pick()
		return func() {
			c := z.begin(client, names[k], sid)
			err := sk.ActOnWorkSpace(sid, acts[k])
			z.end(c, err)
		}
	case 5:
		k := t.Choose("bulk.act", 3)
		flags := []engine.WorkSpaceStateFlags{engine.SFAll, engine.SFRegistered, engine.SFReady | engine.SFMining, engine.SFPlotting}[t.Choose("bulk.flags", 4)]
		return func() {
			c := z.begin(client, "bulk-"+names[k], "")
			c.all = flags == engine.SFAll
			errs, err := sk.ActOnWorkSpaces(flags, acts[k])
			if errs == nil {
				errs = map[string]error{}
			}
			c.acted = errs
			z.end(c, err)
		}
	case 6:
		flags := []engine.WorkSpaceStateFlags{engine.SFAll, engine.SFMining, engine.SFPlotting | engine.SFRegistered}[t.Choose("q.flags", 3)]
		return func() {
			c := z.begin(client, "query", "")
			_, err := sk.WorkSpaceInfos(flags)
			sk.WorkSpaceIDs(flags)
			z.end(c, err)
		}
	case 7:
		// keeper stop (and start again) from an API client
		again := t.Bool("restart", 2, 3)
		return func() {
			c := z.begin(client, "keeper-stop", "")
			err := sk.Stop()
			z.end(c, err)
			if again {
				c2 := z.begin(client, "keeper-start", "")
				err := sk.Start()
				z.end(c2, err)
			}
		}
	case 9:
		// the client pauses: the plotter gets ahead
		n := []int{5, 25, 120}[t.Choose("pause.n", 3)]
		return func() {
			for i := 0; i < n; i++ {
				vsim.Yield("client pause")
			}
		}
	case 10:
		// the client waits until a plot of this space has ended (or gives up), so that its next
		// request meets the plotter while it records the end of the plot
		sid := pick()
		return func() {
			seen := false
			for i := 0; i < 600; i++ {
				ws, ok := sk.workSpaceIndex[allState].Get(sid)
				if !ok {
					return
				}
				if ws.state == engine.Plotting {
					seen = true
					if ws.Progress() >= 100 {
						return
					}
				} else if seen || i > 40 {
					return
				}
				vsim.Yield("client waits for plot")
			}
		}
	default:
		// a burst of identical requests (any number may be outstanding)
		sid := pick()
		k := t.Choose("burst.act", 2)
		n := 2 + t.Choose("burst.n", burstMax)
		return func() {
			c := z.begin(client, "burst-"+names[k], sid)
			var err error
			for i := 0; i < n; i++ {
				err = sk.ActOnWorkSpace(sid, acts[k])
			}
			z.end(c, err)
		}
	}
}

var _ = vos.None
