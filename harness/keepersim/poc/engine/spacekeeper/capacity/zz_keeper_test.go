//go:build go1.25

package capacity

// keeper-sim, sequential part (C11, C15): the real capacity SpaceKeeper built by NewSpaceKeeperV1
// over real massdb.v1 on the simulated disk, a stub wallet behind the keeper's own PoCWallet
// interface, fabricated plot directories, directory-diff and post-condition oracles.

import (
	"context"
	"encoding/binary"
	"encoding/hex"
	"fmt"
	"hash/fnv"
	"os"
	"path/filepath"
	"regexp"
	"sort"
	"strconv"
	"strings"
	"testing"

	"github.com/massnetorg/mass-core/logging"
	"github.com/massnetorg/mass-core/poc"
	"github.com/massnetorg/mass-core/poc/pocutil"
	"github.com/massnetorg/mass-core/pocec"
	"massnet.org/mass/config"
	"massnet.org/mass/poc/engine"
	"massnet.org/mass/poc/engine/massdb"
	massdb_v1 "massnet.org/mass/poc/engine/massdb/massdb.v1"
	"verif/sim"
	"verif/sim/vos"
	"verif/sim/vsim"
)

var zzTestingT *testing.T

func TestSim(t *testing.T) {
	zzTestingT = t
	dir := os.Getenv("VERIF_OUT")
	if dir == "" {
		dir = os.TempDir()
	}
	lvl := os.Getenv("VERIF_LOGLEVEL")
	if lvl == "" {
		lvl = "fatal"
	}
	logging.Init(filepath.Join(dir, fmt.Sprintf("log-%d", os.Getpid())), "keeper", lvl, 0, true)
	sim.Main(map[string]sim.RunFunc{"C11": zzRunC11, "C15": zzRunC15, "C09": zzRunC09, "C13": zzRunC13})
}

// ---------------------------------------------------------------------------------------------
// stub wallet (the keeper's PoCWallet seam)

type zzWalletStub struct {
	next   uint32
	owned  map[string]uint32 // hex pubkey -> ordinal
	locked bool
	failGen bool
}

func zzPriv(i int) (*pocec.PrivateKey, *pocec.PublicKey) {
	b := sim.DetBytes("keeperkey", uint64(i), 32)
	b[0] &= 0x7f
	b[31] |= 1
	return pocec.PrivKeyFromBytes(pocec.S256(), b)
}

func zzPubHex(p *pocec.PublicKey) string { return hex.EncodeToString(p.SerializeCompressed()) }

func zzNewWallet() *zzWalletStub { return &zzWalletStub{owned: map[string]uint32{}} }

// the i-th key the wallet issues is key #i with ordinal i
func (w *zzWalletStub) GenerateNewPublicKey() (*pocec.PublicKey, uint32, error) {
	if w.failGen {
		return nil, 0, fmt.Errorf("wallet: cannot issue key")
	}
	_, pub := zzPriv(int(w.next))
	ord := w.next
	w.owned[zzPubHex(pub)] = ord
	w.next++
	return pub, ord, nil
}

func (w *zzWalletStub) GetPublicKeyOrdinal(p *pocec.PublicKey) (uint32, bool) {
	o, ok := w.owned[zzPubHex(p)]
	return o, ok
}

func (w *zzWalletStub) SignMessage(p *pocec.PublicKey, hash []byte) (*pocec.Signature, error) {
	o, ok := w.owned[zzPubHex(p)]
	if !ok || w.locked {
		return nil, fmt.Errorf("wallet: cannot sign")
	}
	priv, _ := zzPriv(int(o))
	return priv.Sign(hash)
}
func (w *zzWalletStub) Unlock([]byte) error { w.locked = false; return nil }
func (w *zzWalletStub) Lock()               { w.locked = true }
func (w *zzWalletStub) IsLocked() bool      { return w.locked }

// ---------------------------------------------------------------------------------------------
// fabricated plot files (the documented 4096-byte header; no data needed: progress is read from it)

type zzHdr struct {
	Code    []byte
	Version uint64
	BL      int
	Typ     byte // massdb_v1.MapTypeHashMapA / MapTypeHashMapB
	Ckpt    uint64
	Pub     *pocec.PublicKey
	BadHash bool
}

func zzHeader(h zzHdr) []byte {
	b := make([]byte, 4096)
	copy(b[0:], h.Code)
	binary.LittleEndian.PutUint64(b[32:], h.Version)
	b[40] = byte(h.BL)
	b[41] = h.Typ
	binary.LittleEndian.PutUint64(b[42:], h.Ckpt)
	ph := pocutil.PubKeyHash(h.Pub)
	if h.BadHash {
		ph[0] ^= 0xff
	}
	copy(b[50:], ph[:])
	copy(b[82:], h.Pub.SerializeCompressed())
	return b
}

func zzNameB(ord int, pub *pocec.PublicKey, bl int) string {
	return fmt.Sprintf("%d_%s_%d.massdb", ord, zzPubHex(pub), bl)
}
func zzNameA(ord int, pub *pocec.PublicKey, bl int) string {
	return fmt.Sprintf("%d_%s_%d_a.massdb", ord, zzPubHex(pub), bl)
}

type zzEnvK struct {
	r      *sim.Run
	disk   *vos.Disk
	wallet *zzWalletStub
	dirs   []string
	sk     *SpaceKeeper
	items  []*zzItem
}

func zzNewEnvK(r *sim.Run, ndirs int) *zzEnvK {
	disk := vos.New()
	vos.Cur = disk
	disk.StepFn = r.Step
	r.StepBudget = 2000000
	vsim.TakePanics()
	e := &zzEnvK{r: r, disk: disk, wallet: zzNewWallet()}
	for i := 0; i < ndirs; i++ {
		d := fmt.Sprintf("/plots/%c", 'a'+i)
		e.dirs = append(e.dirs, d)
		disk.MkdirAll(d, 0o700)
	}
	return e
}

func (e *zzEnvK) newKeeper(dirs []string) (*SpaceKeeper, error) {
	cfg := &config.Config{Miner: &config.Miner{ProofDir: append([]string{}, dirs...)}}
	ski, err := NewSpaceKeeperV1(cfg, PoCWallet(e.wallet))
	if err != nil {
		return nil, err
	}
	sk := ski.(*SpaceKeeper)
	return sk, nil
}

func (e *zzEnvK) release(sk *SpaceKeeper) {
	if sk == nil {
		return
	}
	if sk.Started() {
		sk.Stop()
	}
	for _, ws := range sk.workSpaceIndex[allState].Items() {
		ws.db.Close()
	}
	sk.workerPool.Release()
}

// listing = sorted "path size" of every file under /plots
func (e *zzEnvK) listing() []string {
	var out []string
	for _, p := range e.disk.Paths() {
		if strings.HasPrefix(p, "/plots/") {
			out = append(out, p)
		}
	}
	sort.Strings(out)
	return out
}

func zzDiffList(before, after []string) (removed, added []string) {
	b := map[string]bool{}
	for _, x := range before {
		b[x] = true
	}
	a := map[string]bool{}
	for _, x := range after {
		a[x] = true
		if !b[x] {
			added = append(added, x)
		}
	}
	for _, x := range before {
		if !a[x] {
			removed = append(removed, x)
		}
	}
	return
}

func zzH(s string) uint64 {
	h := fnv.New64a()
	h.Write([]byte(s))
	return h.Sum64()
}


// ---------------------------------------------------------------------------------------------
// the specification of "indexable plot file" (C11), evaluated on the disk content itself

type zzSpecEntry struct {
	dir     string
	state   string
	certain bool // false: the statement leaves the outcome open (map A absent or unreadable, non-canonical letter case)
	kind    string
	// later indexable copies of the same space (they win when every earlier copy is an open case)
	later []zzSpecEntry
}

var zzNewName = regexp.MustCompile(`^(\d+)_([a-fA-F0-9]{66})_(\d{2})\.(?i:massdb)$`)
var zzOldName = regexp.MustCompile(`^([a-fA-F0-9]{66})-(\d{2})-[bB]\.(?i:massdb)$`)

func zzValidHeader(b []byte, typ byte, pub *pocec.PublicKey, bl int) bool {
	if len(b) < 4096 {
		return false
	}
	if string(b[0:32]) != string(massdb.DBFileCode) || binary.LittleEndian.Uint64(b[32:40]) != 1 || b[41] != typ {
		return false
	}
	hp, err := pocec.ParsePubKey(b[82:115], pocec.S256())
	if err != nil {
		return false
	}
	ph := pocutil.PubKeyHash(hp)
	if string(b[50:82]) != string(ph[:]) {
		return false
	}
	return int(b[40]) == bl && zzPubHex(hp) == zzPubHex(pub)
}

func (e *zzEnvK) spec() map[string]zzSpecEntry {
	out := map[string]zzSpecEntry{}
	for _, dir := range e.dirs {
		fis, err := e.disk.ReadDir(dir)
		if err != nil {
			continue
		}
		for _, fi := range fis {
			if fi.IsDir() {
				continue
			}
			name := fi.Name()
			var ordS, keyS, blS string
			legacy := false
			if m := zzNewName.FindStringSubmatch(name); m != nil {
				ordS, keyS, blS = m[1], m[2], m[3]
			} else if m := zzOldName.FindStringSubmatch(name); m != nil {
				keyS, blS, legacy = m[1], m[2], true
			} else {
				continue
			}
			kb, err := hex.DecodeString(keyS)
			if err != nil {
				continue
			}
			pub, err := pocec.ParsePubKey(kb, pocec.S256())
			if err != nil {
				continue
			}
			bl, _ := strconv.Atoi(blS)
			if !poc.ProofTypeDefault.EnsureBitLength(bl) {
				continue
			}
			ord, owned := e.wallet.GetPublicKeyOrdinal(pub)
			if !owned {
				continue
			}
			if !legacy {
				if o, err := strconv.Atoi(ordS); err != nil || uint32(o) != ord {
					continue
				}
			}
			data, _ := e.disk.Content(dir + "/" + name)
			if !zzValidHeader(data, zzTypB, pub, bl) {
				continue
			}
			sid := NewSpaceID(int64(ord), pub, bl).String()
			first, dup := out[sid]
			ent := zzSpecEntry{dir: dir, state: "registered", certain: true}
			if legacy {
				if _, err := e.disk.Stat(dir + "/" + zzNameB(int(ord), pub, bl)); err == nil {
					ent.certain = false // the canonical name is already taken
				}
			}
			canonical := !legacy && name == zzNameB(int(ord), pub, bl)
			if legacy {
				canonical = true
			}
			if !canonical {
				ent.certain = false
			}
			if binary.LittleEndian.Uint64(data[42:50]) >= uint64(1)<<uint(bl-1) {
				ent.state = "ready"
			} else {
				// a registered space needs its map A: absent or damaged, the statement does not say
				aName := zzNameA(int(ord), pub, bl)
				if legacy {
					aName = strings.Replace(strings.Replace(name, "-B.", "-A.", 1), "-b.", "-a.", 1)
				}
				ad, ok := e.disk.Content(dir + "/" + aName)
				if !ok || !zzValidHeader(ad, zzTypA, pub, bl) {
					ent.certain = false
				}
			}
			if dup {
				first.later = append(first.later, ent)
				out[sid] = first
				continue
			}
			out[sid] = ent
		}
	}
	return out
}

// ---------------------------------------------------------------------------------------------
// C11

type zzItem struct {
	kind   string
	dir    string
	sid    string // expected space id when indexable
	expect string // "", "registered", "ready"
	files  []string
}

var zzBLs = []int{24, 26, 28}

// the type codes the plot DB itself writes (the table in hashmap.go's comment says 0/1, the constants are 1/2)
const (
	zzTypA = byte(massdb_v1.MapTypeHashMapA)
	zzTypB = byte(massdb_v1.MapTypeHashMapB)
)

func zzRunC11(r *sim.Run) {
	t := r.T
	vsim.E = vsim.Plain{}
	e := zzNewEnvK(r, 1+t.Choose("ndirs", 3))
	w := e.wallet
	// the wallet has issued some keys before (ordinals 0..n-1)
	nkeys := 2 + t.Choose("nkeys", 6)
	for i := 0; i < nkeys; i++ {
		w.GenerateNewPublicKey()
	}
	expect := map[string]*zzItem{} // sid -> first indexable item
	var items []*zzItem
	nitems := 1 + t.Choose("nitems", 7)
	taken := map[string]bool{}
	kinds := []string{"registered", "ready", "ready+a", "missing-a", "renamed", "wrong-ordinal", "foreign-key", "bad-code", "bad-version",
		"bad-type", "bad-pkhash", "bl-mismatch", "truncated", "duplicate", "legacy", "junk", "dir-like-plot", "bad-bl-name", "legacy-ready"}
	for i := 0; i < nitems; i++ {
		kind := kinds[t.Choose("item.kind", len(kinds))]
		dir := e.dirs[t.Choose("item.dir", len(e.dirs))]
		ord := t.Choose("item.key", nkeys)
		_, pub := zzPriv(ord)
		bl := zzBLs[t.Choose("item.bl", 3)]
		half := uint64(1) << uint(bl-1)
		vol := uint64(1) << uint(bl)
		it := &zzItem{kind: kind, dir: dir}
		sid := NewSpaceID(int64(ord), pub, bl).String()
		put := func(name string, data []byte) {
			p := dir + "/" + name
			if _, exists := e.disk.Content(p); exists {
				return
			}
			if _, err := e.disk.Stat(p); err == nil {
				return // a directory of that name exists
			}
			// one fixture per (directory, key, bit length, role): two differently spelled files for the
			// same space cannot come from the software itself
			low := dir + "/" + strings.ToLower(name)
			low = strings.Replace(strings.Replace(low, "-b.massdb", "", 1), "-a.massdb", "_a", 1)
			tag := fmt.Sprintf("%s|%s|%d|%v", dir, zzPubHex(pub), bl, strings.Contains(low, "_a"))
			if strings.Contains(strings.ToLower(name), zzPubHex(pub)) {
				if taken[tag] {
					return
				}
				taken[tag] = true
			}
			e.disk.Put(p, data)
			it.files = append(it.files, p)
		}
		hB := zzHdr{Code: massdb.DBFileCode, Version: 1, BL: bl, Typ: zzTypB, Pub: pub}
		hA := zzHdr{Code: massdb.DBFileCode, Version: 1, BL: bl, Typ: zzTypA, Pub: pub}
		nameB, nameA := zzNameB(ord, pub, bl), zzNameA(ord, pub, bl)
		good := false
		switch kind {
		case "registered":
			hA.Ckpt = uint64(t.Choose("ckptA", 3)) * vol / 2
			put(nameB, zzHeader(hB))
			put(nameA, zzHeader(hA))
			it.expect, good = "registered", true
		case "ready":
			hB.Ckpt = half
			put(nameB, zzHeader(hB))
			it.expect, good = "ready", true
		case "ready+a":
			hB.Ckpt = half
			hA.Ckpt = vol
			put(nameB, zzHeader(hB))
			put(nameA, zzHeader(hA))
			it.expect, good = "ready", true
		case "missing-a":
			hB.Ckpt = uint64(t.Choose("ckptB", 2)) * half / 2
			put(nameB, zzHeader(hB))
			it.expect, good = "registered", true
		case "renamed":
			// the name says key #ord, the header says another key
			other := (ord + 1 + t.Choose("other", nkeys+2)) % (nkeys + 3)
			_, opub := zzPriv(other)
			if other == ord {
				_, opub = zzPriv(nkeys + 5)
			}
			hB.Pub, hA.Pub = opub, opub
			hB.Ckpt = half * uint64(t.Choose("rn.ready", 3)) / 2
			put(nameB, zzHeader(hB))
			if t.Bool("rn.with-a", 2, 3) {
				put(nameA, zzHeader(hA))
			}
		case "wrong-ordinal":
			put(zzNameB(ord+1+t.Choose("ordoff", 3), pub, bl), zzHeader(hB))
		case "foreign-key":
			_, fpub := zzPriv(100 + ord)
			hB.Pub = fpub
			hB.Ckpt = half
			put(zzNameB(ord, fpub, bl), zzHeader(hB))
		case "bad-code":
			hB.Code = append([]byte{}, massdb.DBFileCode...)
			hB.Code[3] ^= 1
			hB.Ckpt = half
			put(nameB, zzHeader(hB))
		case "bad-version":
			hB.Version = 2
			hB.Ckpt = half
			put(nameB, zzHeader(hB))
		case "bad-type":
			hB.Typ = byte([]int{0, int(zzTypA), 255}[t.Choose("badtype", 3)])
			hB.Ckpt = half
			put(nameB, zzHeader(hB))
		case "bad-pkhash":
			hB.BadHash = true
			hB.Ckpt = half
			put(nameB, zzHeader(hB))
		case "bl-mismatch":
			hB.BL = zzBLs[(t.Choose("item.bl2", 2)+1+indexOf(zzBLs, bl))%3]
			hB.Ckpt = (uint64(1) << uint(hB.BL-1)) * uint64(t.Choose("blm.ready", 3)) / 2
			put(nameB, zzHeader(hB))
		case "truncated":
			hB.Ckpt = half
			put(nameB, zzHeader(hB)[:[]int{0, 100, 4095}[t.Choose("trunc", 3)]])
		case "duplicate":
			hB.Ckpt = half
			for _, d := range e.dirs {
				dir = d
				put(nameB, zzHeader(hB))
			}
			it.dir = e.dirs[0]
			it.expect, good = "ready", true
		case "legacy", "legacy-ready":
			up := strings.ToUpper(zzPubHex(pub))
			if t.Bool("legacy.lower", 1, 2) {
				up = zzPubHex(pub)
			}
			if kind == "legacy-ready" {
				hB.Ckpt = half
				put(fmt.Sprintf("%s-%d-B.MASSDB", up, bl), zzHeader(hB))
				it.expect = "ready"
			} else {
				put(fmt.Sprintf("%s-%d-B.MASSDB", up, bl), zzHeader(hB))
				put(fmt.Sprintf("%s-%d-A.MASSDB", up, bl), zzHeader(hA))
				it.expect = "registered"
			}
			it.kind = kind + zzIfS(up == zzPubHex(pub), "-lower", "-upper")
			good = true
		case "junk":
			put([]string{"notes.txt", "x.massdb", "1_zz_24.massdb", ".massdb"}[t.Choose("junk", 4)], []byte("junk"))
		case "dir-like-plot":
			tag := fmt.Sprintf("%s|%s|%d|%v", dir, zzPubHex(pub), bl, false)
			if !taken[tag] {
				taken[tag] = true
				e.disk.MkdirAll(dir+"/"+nameB, 0o700)
			}
		case "bad-bl-name":
			put(zzNameB(ord, pub, []int{25, 22, 42}[t.Choose("badbl", 3)]), zzHeader(hB))
		}
		items = append(items, it)
		if good && len(it.files) > 0 {
			it.sid = sid
			if _, dup := expect[sid]; !dup {
				expect[sid] = it
			}
		}
	}
	// which item wins for a sid is decided by directory order, not creation order
	for sid := range expect {
		var best *zzItem
		for _, d := range e.dirs {
			for _, it := range items {
				if it.sid == sid && best == nil {
					for _, f := range it.files {
						if strings.HasPrefix(f, d+"/") && !strings.HasSuffix(strings.ToLower(f), "_a.massdb") && !strings.HasSuffix(f, "-A.MASSDB") {
							best = it
						}
					}
				}
			}
			if best != nil {
				break
			}
		}
		if best != nil {
			expect[sid] = best
		}
	}
	e.items = items
	for _, it := range items {
		r.Event("fixture %s in %s: %v", it.kind, it.dir, zzBase(it.files))
	}
	before := e.listing()
	specBefore := e.spec()

	sk, err := e.newKeeper(e.dirs)
	r.Ops++
	if err != nil {
		r.Fail("C11/startup-fails/new-keeper", "NewSpaceKeeperV1 over the fabricated directories failed: %v", err)
		return
	}
	e.sk = sk
	defer func() { e.release(e.sk) }()
	zzCheckIndex(e, sk, specBefore, "startup")
	if r.Failed() {
		return
	}
	expect = map[string]*zzItem{}
	for sid := range sk.workSpaceIndex[allState].Items() {
		expect[sid] = &zzItem{}
	}
	// start-up may create the missing map A of a registered space and rename legacy files; nothing else changes
	after := e.listing()
	removed, added := zzDiffList(before, after)
	zzCheckStartupDiff(e, removed, added, items)
	if r.Failed() {
		return
	}
	// use everything, start the keeper, act
	w.Unlock(nil)
	if _, err := sk.ConfigureByFlags(engine.SFAll, false, false); err != nil && err != ErrSpaceKeeperConfiguredNothing {
		r.Fail("C11/configure-fails/by-flags", "ConfigureByFlags(all): %v", err)
		return
	}
	if err := sk.Start(); err != nil {
		r.Fail("C11/start-fails/keeper", "Start: %v", err)
		return
	}
	// proofs are only ever served for indexed spaces
	var ch pocutil.Hash
	copy(ch[:], sim.DetBytes("challenge", 1, 32))
	proofs, perr := sk.GetProofs(context.Background(), engine.SFAll, ch, false)
	if perr == nil {
		for _, p := range proofs {
			if _, ok := expect[p.SpaceID]; !ok {
				r.Fail("C11/proof-from-unindexable-file/GetProofs", "GetProofs returned an entry for %s, which is no indexable space", p.SpaceID)
			}
			if p.Error == nil && p.Proof != nil {
				if verr := poc.VerifyProof(p.Proof, pocutil.PubKeyHash(p.PublicKey), ch, false); verr != nil {
					r.Fail("C11/invalid-proof-served/GetProofs", "proof served for %s does not verify: %v", p.SpaceID, verr)
				}
			}
		}
	}
	nops := 3 + t.Choose("nops", 10)
	live := map[string]*zzItem{}
	for k, v := range expect {
		live[k] = v
	}
	removedFromUse := map[string]bool{}
	for i := 0; i < nops && !r.Failed(); i++ {
		r.Ops++
		sids := make([]string, 0, len(expect))
		for s := range expect {
			sids = append(sids, s)
		}
		sort.Strings(sids)
		if len(sids) == 0 {
			break
		}
		sid := sids[t.Choose("op.sid", len(sids))]
		act := []engine.ActionType{engine.Mine, engine.Stop, engine.Remove, engine.Delete, engine.Delete, engine.Plot}[t.Choose("op.act", 5)]
		info := zzInfo(sk, sid)
		if (act == engine.Mine || act == engine.Plot) && info != "ready" && info != "mining" {
			// plot requests for unplotted spaces wake the plotter goroutine: that is C09's (scheduled) territory
			act = engine.Stop
		}
		pre := e.listing()
		viewBefore := zzPublicView(sk)
		err := sk.ActOnWorkSpace(sid, act)
		post := e.listing()
		rem, add := zzDiffList(pre, post)
		if viewAfter := zzPublicView(sk); err != nil && viewAfter != viewBefore {
			r.Fail("C11/refused-action-changed-state/"+act.String(), "%s of %s (a %s space) was refused (%v) but the spaces in use changed from [%s] to [%s]", act, sid[:8], info, err, viewBefore, viewAfter)
		}
		r.Event("op %s %s (state %s) -> err=%v removed=%v added=%v", act, sid[:8], info, err, zzBase(rem), zzBase(add))
		it := live[sid]
		switch act {
		case engine.Delete:
			if info == "mining" || info == "plotting" {
				if err == nil {
					r.Fail("C11/delete-not-refused/"+info, "Delete of a %s space succeeded", info)
				}
				if len(rem) > 0 {
					r.Fail("C11/files-removed-by-refused-delete/"+info, "refused Delete removed %v", rem)
				}
			} else if it != nil && !removedFromUse[sid] && (info == "ready" || info == "registered") {
				if err != nil {
					// refusal is allowed by no rule here, but erasing nothing is what matters for this property
					if len(rem) > 0 {
						r.Fail("C11/files-removed-by-failed-delete/"+info, "Delete returned %v but removed %v", err, rem)
					}
				} else {
					zzCheckDeleted(e, sid, rem, post)
					delete(live, sid)
				}
			} else if len(rem) > 0 {
				r.Fail("C11/files-removed-by-refused-delete/unused", "Delete of a space that is not in use removed %v", rem)
			}
		case engine.Remove:
			if len(rem) > 0 {
				r.Fail("C11/files-removed-by-remove/"+info, "Remove erased %v", rem)
			}
			if (info == "mining" || info == "plotting") && err == nil {
				r.Fail("C11/remove-not-refused/"+info, "Remove of a %s space succeeded", info)
			}
			if err == nil {
				removedFromUse[sid] = true
			}
		default:
			if len(rem) > 0 {
				r.Fail("C11/files-removed-by-other-action/"+act.String(), "%s erased %v", act, rem)
			}
		}
		if len(add) > 0 {
			r.Fail("C11/files-created-by-action/"+act.String(), "%s created %v", act, add)
		}
		r.State(zzH(fmt.Sprint(zzStates(sk))))
	}
	if r.Failed() {
		return
	}
	// restart: a second keeper on the same disk indexes the same set (minus what was deleted)
	e.release(sk)
	e.sk = nil
	pre := e.listing()
	specRestart := e.spec()
	sk2, err := e.newKeeper(e.dirs)
	if err != nil {
		r.Fail("C11/restart-fails/new-keeper", "second keeper: %v", err)
		return
	}
	e.sk = sk2
	_ = live
	zzCheckIndex(e, sk2, specRestart, "restart")
	rem, add := zzDiffList(pre, e.listing())
	var addOther []string
	for _, f := range add {
		if !strings.HasSuffix(f, "_a.massdb") {
			addOther = append(addOther, f)
		}
	}
	if len(rem) > 0 || len(addOther) > 0 {
		r.Fail("C11/restart-changes-files/new-keeper", "re-indexing removed %v and added %v", rem, addOther)
	}
}

func indexOf(a []int, v int) int {
	for i, x := range a {
		if x == v {
			return i
		}
	}
	return 0
}

func zzIfS(c bool, a, b string) string {
	if c {
		return a
	}
	return b
}

func zzBase(ps []string) []string {
	out := make([]string, len(ps))
	for i, p := range ps {
		b := filepath.Base(p)
		if len(b) > 24 {
			b = b[:6] + ".." + b[len(b)-14:]
		}
		out[i] = filepath.Base(filepath.Dir(p)) + "/" + b
	}
	return out
}

func zzInfo(sk *SpaceKeeper, sid string) string {
	if ws, ok := sk.workSpaceIndex[allState].Get(sid); ok {
		return ws.state.String()
	}
	return "absent"
}

// zzPublicView is what WorkSpaceInfos shows: the spaces in use and their states.
func zzPublicView(sk *SpaceKeeper) string {
	infos, err := sk.WorkSpaceInfos(engine.SFAll)
	if err != nil {
		return "error: " + err.Error()
	}
	var out []string
	for _, in := range infos {
		out = append(out, in.SpaceID[:6]+":"+in.State.String())
	}
	sort.Strings(out)
	return strings.Join(out, " ")
}

func zzStates(sk *SpaceKeeper) []string {
	var out []string
	for sid, ws := range sk.workSpaceIndex[allState].Items() {
		out = append(out, sid[:6]+":"+ws.state.String())
	}
	sort.Strings(out)
	return out
}

func zzCheckIndex(e *zzEnvK, sk *SpaceKeeper, spec map[string]zzSpecEntry, when string) {
	r := e.r
	got := sk.workSpaceIndex[allState].Items()
	for sid, ws := range got {
		ent, ok := spec[sid]
		kind := zzKindOf(e, ws)
		if !ok {
			r.Fail("C11/unindexable-file-loaded/"+when+"/"+kind, "the keeper indexed %s from %s although no file there passes the checks (well-formed name, valid header that matches the name, key and ordinal of the wallet)", sid, ws.rootDir)
			continue
		}
		if ws.rootDir != ent.dir {
			// a later copy may win only if every earlier copy is a case the statement leaves open
			ok := !ent.certain
			found := false
			for _, l := range ent.later {
				if l.dir == ws.rootDir {
					found = true
					ent.state = l.state
					break
				}
				if l.certain {
					ok = false
				}
			}
			if !ok || !found {
				r.Fail("C11/wrong-duplicate-wins/"+when, "space %s was taken from %s, the first directory holding an indexable copy is %s", sid[:8], ws.rootDir, ent.dir)
				continue
			}
		}
		if ws.state.String() != ent.state {
			r.Fail("C11/state-not-from-progress/"+when+"/"+kind, "space %s (%s) indexed as %s, its recorded progress says %s", sid[:8], kind, ws.state, ent.state)
		}
	}
	for sid, ent := range spec {
		if _, ok := got[sid]; !ok && ent.certain {
			kind := "?"
			for _, it := range e.items {
				for _, f := range it.files {
					if filepath.Dir(f) == ent.dir && strings.Contains(strings.ToLower(f), sid[:66]) {
						kind = it.kind
					}
				}
			}
			r.Fail("C11/valid-file-not-indexed/"+when+"/"+kind, "space %s (in %s, recorded progress %s) was not indexed", sid[:8], ent.dir, ent.state)
		}
	}
	// exactly once: the per-state indexes partition the all-index
	n := 0
	for s := engine.FirstState; s <= engine.LastState; s++ {
		n += sk.workSpaceIndex[s].Count()
	}
	if n != len(got) {
		r.Fail("C11/index-not-a-partition/"+when, "%d spaces in the all-index, %d over the state indexes", len(got), n)
	}
}

// zzKindOf names the fixture kind a wrongly indexed workspace came from (stable signature part).
func zzKindOf(e *zzEnvK, ws *WorkSpace) string {
	key := zzPubHex(ws.id.pubKey)
	suffix := fmt.Sprintf("_%d.massdb", ws.id.bitLength)
	for _, it := range e.items {
		for _, f := range it.files {
			b := strings.ToLower(filepath.Base(f))
			if filepath.Dir(f) == ws.rootDir && strings.Contains(b, key) && (strings.HasSuffix(b, suffix) || strings.Contains(b, fmt.Sprintf("-%d-b.massdb", ws.id.bitLength))) {
				return it.kind
			}
		}
	}
	return "no-such-file"
}

func zzCheckStartupDiff(e *zzEnvK, removed, added []string, items []*zzItem) {
	r := e.r
	legacy := map[string]bool{}
	needA := map[string]bool{}
	for _, it := range items {
		if strings.HasPrefix(it.kind, "legacy") {
			for _, f := range it.files {
				legacy[f] = true
			}
		}
		if it.kind == "missing-a" || strings.HasPrefix(it.kind, "legacy") || it.kind == "registered" || it.kind == "renamed" {
			needA[it.dir] = true
		}
	}
	for _, f := range removed {
		if !legacy[f] {
			r.Fail("C11/file-removed-at-startup/scan", "start-up removed %s", f)
		}
	}
	for _, f := range added {
		base := filepath.Base(f)
		if strings.HasSuffix(base, "_a.massdb") {
			continue // re-created map A of a registered space, or a renamed legacy A
		}
		renamedLegacy := false
		for _, g := range removed {
			if legacy[g] && filepath.Dir(g) == filepath.Dir(f) {
				renamedLegacy = true
			}
		}
		if !renamedLegacy {
			r.Fail("C11/file-created-at-startup/scan", "start-up created %s", f)
		}
	}
}

func zzCheckDeleted(e *zzEnvK, sid string, removed, post []string) {
	r := e.r
	key := sid[:66]
	bl := sid[67:]
	for _, f := range removed {
		b := strings.ToLower(filepath.Base(f))
		if !strings.Contains(b, key) || !(strings.HasSuffix(b, "_"+bl+".massdb") || strings.HasSuffix(b, "_"+bl+"_a.massdb")) {
			r.Fail("C11/delete-erased-other-file/Delete", "Delete(%s) erased %s", sid[:8], f)
		}
	}
	if len(removed) == 0 {
		r.Fail("C11/delete-erased-nothing/Delete", "Delete(%s) succeeded but erased no file", sid[:8])
	}
}

// ---------------------------------------------------------------------------------------------
// C15

type zzSel struct {
	sid string
	bl  int
	dir string
}

func zzPlotSize(bl int) uint64 { return poc.ProofTypeDefault.PlotSize(bl) }

func zzRunC15(r *sim.Run) {
	t := r.T
	vsim.E = vsim.Plain{}
	e := zzNewEnvK(r, 1+t.Choose("ndirs", 3))
	w := e.wallet
	w.Unlock(nil)
	min := zzPlotSize(24)
	// pre-existing spaces: issued by the wallet earlier, any allowed bit length, any directory
	npre := t.Choose("npre", 6)
	for i := 0; i < npre; i++ {
		pub, ord, _ := w.GenerateNewPublicKey()
		bl := zzBLs[t.Choose("pre.bl", 3)]
		dir := e.dirs[t.Choose("pre.dir", len(e.dirs))]
		hB := zzHdr{Code: massdb.DBFileCode, Version: 1, BL: bl, Typ: zzTypB, Pub: pub}
		if t.Bool("pre.ready", 1, 2) {
			hB.Ckpt = uint64(1) << uint(bl-1)
		} else {
			e.disk.Put(dir+"/"+zzNameA(int(ord), pub, bl), zzHeader(zzHdr{Code: massdb.DBFileCode, Version: 1, BL: bl, Typ: zzTypA, Pub: pub}))
		}
		e.disk.Put(dir+"/"+zzNameB(int(ord), pub, bl), zzHeader(hB))
	}
	// some keys were issued without a plot
	for i := t.Choose("gapkeys", 3); i > 0; i-- {
		w.GenerateNewPublicKey()
	}
	// every plot directory is a disk of its own
	e.disk.Mounts = map[string]int64{}
	freeOf := func(dir string) int64 {
		c := e.disk.Mounts[dir]
		if c < 0 {
			return -1
		}
		return c - e.disk.UsedUnder(dir)
	}
	setBudget := func() {
		for _, dir := range e.dirs {
			used := e.disk.UsedUnder(dir)
			switch t.Choose("free", 4) {
			case 0:
				e.disk.Mounts[dir] = -1
			case 1:
				e.disk.Mounts[dir] = used + int64(min)*int64(1+t.Choose("free.k", 40)) + int64(t.Choose("free.odd", 3)) - 1
			case 2:
				e.disk.Mounts[dir] = used + int64(t.Choose("free.small", 3))*int64(min)/2
			case 3:
				e.disk.Mounts[dir] = used + int64(zzPlotSize(28))*int64(1+t.Choose("free.big", 4))
			}
		}
	}
	setBudget()
	sk, err := e.newKeeper(e.dirs)
	if err != nil {
		r.Fail("C15/startup-fails/new-keeper", "NewSpaceKeeperV1: %v", err)
		return
	}
	e.sk = sk
	defer func() { e.release(e.sk) }()

	nops := 2 + t.Choose("nops", 6)
	var lastSel []zzSel
	for i := 0; i < nops && !r.Failed(); i++ {
		r.Ops++
		sk = e.sk
		indexedBefore := map[string]zzSel{}
		for sid, ws := range sk.workSpaceIndex[allState].Items() {
			indexedBefore[sid] = zzSel{sid, ws.id.bitLength, ws.rootDir}
		}
		pre := e.listing()
		keyCtr := w.next
		free := freeOf(sk.dbDirs[0])
		switch t.Weighted("op", []int{6, 4, 3, 1, 2, 2, 2}) {
		case 0: // ConfigureBySize
			target := zzTarget(t, min)
			infos, err := sk.ConfigureBySize(target, false, false)
			post := e.listing()
			_, added := zzDiffList(pre, post)
			r.Event("ConfigureBySize(%d = %.2f min) free=%d -> %d spaces err=%v created=%d", target, float64(target)/float64(min), free, len(infos), err, len(added)/2)
			zzCheckSized(e, "BySize", []string{sk.dbDirs[0]}, []uint64{target}, infos, err, indexedBefore, pre, post, keyCtr, []int64{free})
			if err == nil {
				zzCheckViews(e, "ByFlags")
				lastSel = zzSelOf(sk)
			}
		case 1: // ConfigureByPath
			n := 1 + t.Choose("npaths", len(e.dirs))
			perm := append([]string{}, e.dirs...)
			if t.Bool("paths.rev", 1, 2) {
				for a, b := 0, len(perm)-1; a < b; a, b = a+1, b-1 {
					perm[a], perm[b] = perm[b], perm[a]
				}
			}
			paths := perm[:n]
			sizes := make([]int, n)
			tg := make([]uint64, n)
			for j := range sizes {
				tg[j] = zzTarget(t, min)
				sizes[j] = int(tg[j])
			}
			frees := make([]int64, n)
			for j := range paths {
				frees[j] = freeOf(paths[j])
			}
			// the API handler first asks the keeper whether every directory can hold its share
			viaAPI := t.Bool("bypath.viaapi", 2, 3)
			if viaAPI {
				var perr error
				for j := range paths {
					if perr = sk.IsCapacityAvailable(paths[j], tg[j]); perr != nil {
						break
					}
				}
				if perr != nil {
					r.Event("ConfigureCapacityByDirs(%v, %v) free=%v -> refused by the capacity pre-check: %v", zzBase(paths), sizes, frees, perr)
					if _, added := zzDiffList(pre, e.listing()); len(added) > 0 {
						r.Fail("C15/rejected-but-files-created/ByPath", "the capacity pre-check refused the request but created %v", zzBase(added))
					}
					continue
				}
			}
			infos, err := sk.ConfigureByPath(paths, sizes, false, false)
			post := e.listing()
			_, added := zzDiffList(pre, post)
			r.Event("ConfigureByPath(%v, %v) viaAPI=%v free=%v -> %d spaces err=%v created=%d", zzBase(paths), sizes, viaAPI, frees, len(infos), err, len(added)/2)
			// ConfigureByPath re-indexes from the given directories only
			ib := map[string]zzSel{}
			for sid, s := range indexedBefore {
				for _, p := range paths {
					if s.dir == p {
						ib[sid] = s
					}
				}
			}
			zzCheckSized(e, "ByPath", paths, tg, infos, err, ib, pre, post, keyCtr, frees)
			if err == nil {
				zzCheckViews(e, "ByFlags")
				lastSel = zzSelOf(sk)
			} else {
				// a failed ConfigureByPath may have narrowed the keeper's directories; rebuild it
				e.release(sk)
				e.sk, _ = e.newKeeper(e.dirs)
				if e.sk == nil {
					return
				}
			}
		case 2: // ConfigureByBitLength
			counts := map[int]int{}
			for _, bl := range zzBLs {
				if t.Bool("bybl.has", 1, 2) {
					counts[bl] = t.Choose("bybl.n", 4)
				}
			}
			infos, err := sk.ConfigureByBitLength(counts, false, false)
			post := e.listing()
			_, added := zzDiffList(pre, post)
			r.Event("ConfigureByBitLength(%v) free=%d -> %d spaces err=%v created=%d", counts, free, len(infos), err, len(added)/2)
			total := 0
			for _, c := range counts {
				total += c
			}
			if err == nil {
				got := map[int]int{}
				for _, in := range infos {
					got[in.BitLength]++
				}
				for _, bl := range zzBLs {
					if got[bl] != counts[bl] {
						r.Fail("C15/count-not-exact/ByBitLength", "asked for %v, selected %v", counts, got)
					}
				}
				zzCheckNewFiles(e, "ByBitLength", []string{sk.dbDirs[0]}, pre, post, infos, indexedBefore)
				zzCheckViews(e, "ByBitLength")
				lastSel = zzSelOf(sk)
			} else {
				if total > 0 && len(added) > 0 && free >= 0 {
					need := uint64(0)
					have := map[int]int{}
					for _, s := range indexedBefore {
						have[s.bl]++
					}
					for bl, c := range counts {
						if c > have[bl] {
							need += uint64(c-have[bl]) * zzPlotSize(bl)
						}
					}
					if int64(need) > free {
						r.Fail("C15/rejected-but-files-created/ByBitLength", "the request exceeds free disk space and was rejected (%v), but %d files were created", err, len(added))
					}
				}
			}
		case 3: // ConfigureByFlags
			infos, err := sk.ConfigureByFlags(engine.SFAll, false, false)
			r.Event("ConfigureByFlags(all) -> %d spaces err=%v", len(infos), err)
			if _, added := zzDiffList(pre, e.listing()); len(added) > 0 {
				r.Fail("C15/files-created/ByFlags", "ConfigureByFlags created %v", added)
			}
			if err == nil {
				zzCheckViews(e, "ByFlags")
				lastSel = zzSelOf(sk)
			}
		case 4: // Remove a used space (stays indexed, may be reused)
			ids, _ := sk.WorkSpaceIDs(engine.SFAll)
			if len(ids) > 0 {
				sid := ids[t.Choose("rm.sid", len(ids))]
				err := sk.ActOnWorkSpace(sid, engine.Remove)
				r.Event("Remove %s -> %v", sid[:8], err)
				lastSel = zzSelOf(sk)
			}
		case 5: // restart: the selection is found again
			want := lastSel
			e.release(sk)
			sk2, err := e.newKeeper(e.dirs)
			if err != nil {
				r.Fail("C15/restart-fails/new-keeper", "second keeper: %v", err)
				return
			}
			e.sk = sk2
			idx := sk2.workSpaceIndex[allState].Items()
			r.Event("restart -> %d indexed", len(idx))
			for _, s := range want {
				ws, ok := idx[s.sid]
				if !ok {
					r.Fail("C15/selection-lost-after-restart/restart", "selected space %s (bl %d in %s) is not indexed after a restart", s.sid[:8], s.bl, filepath.Base(s.dir))
				} else if ws.rootDir != s.dir || ws.id.bitLength != s.bl {
					r.Fail("C15/selection-changed-after-restart/restart", "selected space %s re-indexed as bl %d in %s", s.sid[:8], ws.id.bitLength, ws.rootDir)
				}
			}
			lastSel = nil
		case 6:
			setBudget()
			r.Event("free space budgets changed")
		}
		r.State(zzH(fmt.Sprint(len(lastSel), len(e.listing()))))
	}
}

func zzTarget(t *sim.Tape, min uint64) uint64 {
	switch t.Choose("target.kind", 6) {
	case 0:
		return min * uint64(t.Choose("target.small", 3)) / 2 // 0, min/2, min: below or at the minimum
	case 1:
		return min*uint64(1+t.Choose("target.k", 30)) + uint64(t.Choose("target.odd", 3)) - 1
	case 2:
		return zzPlotSize(26)*uint64(1+t.Choose("target.k26", 6)) + uint64(t.Choose("target.off", 2))*min/2
	case 3:
		return zzPlotSize(28)*uint64(1+t.Choose("target.k28", 3)) - uint64(t.Choose("target.m", 2))
	case 4:
		return min - 1 + uint64(t.Choose("target.edge", 3))
	default:
		return min * uint64(1+t.Choose("target.k2", 80)) / 3
	}
}

func zzSelOf(sk *SpaceKeeper) []zzSel {
	var out []zzSel
	for _, ws := range sk.workSpaceList {
		out = append(out, zzSel{ws.id.String(), ws.id.bitLength, ws.rootDir})
	}
	return out
}

// zzCheckSized: post-conditions of ConfigureBySize / ConfigureByPath (deliberately not the greedy algorithm).
func zzCheckSized(e *zzEnvK, name string, dirs []string, targets []uint64, infos []engine.WorkSpaceInfo, err error,
	indexedBefore map[string]zzSel, pre, post []string, keyCtr uint32, frees []int64) {
	r := e.r
	min := zzPlotSize(24)
	_, added := zzDiffList(pre, post)
	removed, _ := zzDiffList(pre, post)
	if len(removed) > 0 {
		r.Fail("C15/files-removed/"+name, "configuration removed %v", removed)
	}
	if err != nil {
		below := false
		for _, tg := range targets {
			if tg < min {
				below = true
			}
		}
		if below || err == ErrOSDiskSizeNotEnough {
			if len(added) > 0 {
				r.Fail("C15/rejected-but-files-created/"+name, "the request was rejected (%v) but created %v", err, zzBase(added))
			}
			if e.wallet.next != keyCtr {
				r.Fail("C15/rejected-but-keys-consumed/"+name, "the request was rejected (%v) but the wallet issued %d new keys", err, e.wallet.next-keyCtr)
			}
		}
		// must a request that fits have been accepted?
		if !below && err == ErrOSDiskSizeNotEnough {
			fits := true
			for j, tg := range targets {
				if frees[j] >= 0 && int64(tg) >= frees[j] {
					fits = false
				}
			}
			if fits {
				r.Fail("C15/fitting-request-rejected/"+name, "targets %v fit into the free space %v, yet the request was rejected for disk space", targets, frees)
			}
		}
		return
	}
	for _, tg := range targets {
		if tg < min {
			r.Fail("C15/below-minimum-accepted/"+name, "a target of %d bytes is below the minimum plot size %d but was accepted", tg, min)
			return
		}
	}
	// group the selection by directory target
	sk := e.sk
	sel := map[string]*WorkSpace{}
	for _, ws := range sk.workSpaceList {
		sel[ws.id.String()] = ws
	}
	if len(sel) != len(infos) {
		r.Fail("C15/result-list-mismatch/"+name, "the call returned %d spaces but %d are in use", len(infos), len(sel))
	}
	zzCheckViews(e, name)
	for di, tg := range targets {
		var total, reused uint64
		created := 0
		for sid, ws := range sel {
			if name == "ByPath" && ws.rootDir != dirs[di] {
				continue
			}
			sz := zzPlotSize(ws.id.bitLength)
			total += sz
			if _, old := indexedBefore[sid]; old {
				reused += sz
			} else {
				created++
				if ws.rootDir != dirs[di] && name == "ByPath" || name == "BySize" && ws.rootDir != dirs[0] {
					r.Fail("C15/new-space-in-wrong-directory/"+name, "new space %s was created in %s, requested %v", sid[:8], ws.rootDir, dirs)
				}
			}
		}
		if total > tg {
			r.Fail("C15/exceeds-target/"+name, "selected %d bytes for a target of %d (directory %s)", total, tg, filepath.Base(dirs[di]))
		}
		if tg-total >= min && total <= tg {
			r.Fail("C15/falls-short-by-a-plot/"+name, "selected %d bytes for a target of %d: short by %d >= the smallest plot size %d", total, tg, tg-total, min)
		}
		// reuse before create: if something was created, no unused indexed space (of this scope) fits the gap left after reuse
		if created > 0 {
			gap := tg - reused
			for sid, s := range indexedBefore {
				if _, used := sel[sid]; used {
					continue
				}
				if name == "ByPath" && s.dir != dirs[di] {
					continue
				}
				if zzPlotSize(s.bl) <= gap {
					r.Fail("C15/created-instead-of-reusing/"+name, "created %d new spaces although indexed space %s (bl %d, %d bytes) fits the %d bytes left after reuse", created, sid[:8], s.bl, zzPlotSize(s.bl), gap)
					break
				}
			}
		}
	}
	zzCheckNewFiles(e, name, dirs, pre, post, infos, indexedBefore)
	// beyond free disk space must be rejected: what was created in a directory must fit there
	for di := range targets {
		if frees[di] < 0 {
			continue
		}
		var createdBytes uint64
		for sid, ws := range sel {
			if _, old := indexedBefore[sid]; !old && ws.rootDir == dirs[di] {
				createdBytes += zzPlotSize(ws.id.bitLength)
			}
		}
		if int64(createdBytes) > frees[di] {
			r.Fail("C15/beyond-free-space-accepted/"+name, "new spaces of %d bytes were created in %s with only %d bytes free", createdBytes, filepath.Base(dirs[di]), frees[di])
		}
	}
}

// zzCheckNewFiles: each new space has exactly its two files, named (ordinal, key, bits) with the wallet's ordinal.
// zzCheckViews: the selection as listed per directory (the API's by-directory report) is the
// selection as listed flat, and a space outside it is refused by the actions.
func zzCheckViews(e *zzEnvK, name string) {
	r, sk := e.r, e.sk
	flat := map[string]bool{}
	for _, ws := range sk.workSpaceList {
		flat[ws.id.String()] = true
	}
	_, res, err := sk.WorkSpaceInfosByDirs()
	if err != nil {
		return
	}
	for _, infos := range res {
		for _, in := range infos {
			if !flat[in.SpaceID] {
				r.Fail("C15/deselected-space-still-in-use/"+name, "space %s is not part of the selection this call returned, but the by-directory listing still shows it", in.SpaceID[:8])
			}
		}
	}
	// (a selected space whose directory is no longer among the keeper's directories is not listed
	// by directory: the listing covers the current directories only, nothing in C15 forbids that)
	for sid, ws := range sk.workSpaceIndex[allState].Items() {
		if ws.using != flat[sid] {
			r.Fail("C15/deselected-space-still-in-use/"+name, "space %s: selected=%v but in-use flag=%v", sid[:8], flat[sid], ws.using)
		}
	}
}

func zzCheckNewFiles(e *zzEnvK, name string, dirs []string, pre, post []string, infos []engine.WorkSpaceInfo, indexedBefore map[string]zzSel) {
	r := e.r
	_, added := zzDiffList(pre, post)
	want := map[string]bool{}
	for _, ws := range e.sk.workSpaceList {
		sid := ws.id.String()
		if _, old := indexedBefore[sid]; old {
			continue
		}
		ord, ok := e.wallet.GetPublicKeyOrdinal(ws.id.pubKey)
		if !ok {
			r.Fail("C15/new-space-with-foreign-key/"+name, "new space %s uses a key the wallet does not own", sid[:8])
			continue
		}
		if int64(ord) != ws.id.ordinal {
			r.Fail("C15/new-space-wrong-ordinal/"+name, "new space %s carries ordinal %d, the wallet says %d", sid[:8], ws.id.ordinal, ord)
		}
		want[ws.rootDir+"/"+zzNameB(int(ord), ws.id.pubKey, ws.id.bitLength)] = true
		want[ws.rootDir+"/"+zzNameA(int(ord), ws.id.pubKey, ws.id.bitLength)] = true
	}
	for _, f := range added {
		if !want[f] {
			// a re-created map A of a reused registered space is not a new space
			if strings.HasSuffix(f, "_a.massdb") {
				continue
			}
			r.Fail("C15/unexpected-file-created/"+name, "configuration created %s, which belongs to no newly selected space", f)
		}
		delete(want, f)
	}
	for f := range want {
		r.Fail("C15/new-space-file-missing/"+name, "new space file %s was not created", f)
	}
}
