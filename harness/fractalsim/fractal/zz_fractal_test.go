//go:build go1.25

package fractal

// fractal-sim (C16, C17): the real cluster-mining stack - LocalSuperior, CollectorPool (built
// in-package without a TCP listener), RemoteCollector, RemoteSuperior, LocalCollector, the real
// connection.Conn with its four routines, MessageSender/Receiver and the protocol codec - over the
// simulated network inside a synctest bubble; scripted v2 space keepers answer every request
// with a payload unique to (collector, task).

import (
	"bytes"
	"context"
	"encoding/binary"
	"encoding/hex"
	"fmt"
	"hash/fnv"
	"math/big"
	"os"
	"path/filepath"
	"runtime"
	"sort"
	"strings"
	"testing"
	"time"

	"github.com/google/uuid"
	"github.com/massnetorg/mass-core/logging"
	"github.com/massnetorg/mass-core/poc/chiapos"
	"github.com/massnetorg/mass-core/poc/pocutil"
	"massnet.org/mass/fractal/connection"
	"massnet.org/mass/fractal/protocol"
	engine_v2 "massnet.org/mass/poc/engine.v2"
	"verif/sim"
	"verif/sim/simnet"
	"verif/sim/vsim"
)

var (
	zzT      *testing.T
	zzSKs    []*chiapos.PrivateKey
	zzG1s    []*chiapos.G1Element
)

func TestSim(t *testing.T) {
	zzT = t
	dir := os.Getenv("VERIF_OUT")
	if dir == "" {
		dir = os.TempDir()
	}
	lvl := os.Getenv("VERIF_LOGLEVEL")
	if lvl == "" {
		lvl = "fatal"
	}
	logging.Init(filepath.Join(dir, fmt.Sprintf("log-%d", os.Getpid())), "fractal", lvl, 0, true)
	for i := 0; i < 6; i++ {
		sk, err := chiapos.KeyGen(chiapos.SchemeMPLAug, sim.DetBytes("blsseed", uint64(i), 32))
		if err != nil {
			sim.EngineError("bls keygen: %v", err)
		}
		g1, err := sk.GetG1()
		if err != nil {
			sim.EngineError("bls g1: %v", err)
		}
		zzSKs = append(zzSKs, sk)
		zzG1s = append(zzG1s, g1)
	}
	sim.Main(map[string]sim.RunFunc{"C17": zzRunC17, "C16": zzRunC16})
}

// ---------------------------------------------------------------------------------------------
// scripted v2 space keeper

type zzKeeperCall struct {
	kind string // qualities proof sign
	key  string // challenge / sid+challenge / sid+hash
	at   time.Duration
}

type zzKeeper struct {
	w     *zzNet
	name  string
	idx   int
	calls []zzKeeperCall
	delay time.Duration
}

func (k *zzKeeper) sid() string { return k.name + "/space0" }

func (k *zzKeeper) count(key string) int {
	c := 0
	for _, x := range k.calls {
		if x.kind+"|"+x.key == key {
			c++
		}
	}
	return c
}

func (k *zzKeeper) lastCall(prefix string) time.Duration {
	var at time.Duration
	for _, x := range k.calls {
		if strings.HasPrefix(x.kind+"|", prefix) {
			at = x.at
		}
	}
	return at
}

func (k *zzKeeper) countSuffix(prefix, suffix string) int {
	c := 0
	for _, x := range k.calls {
		if s := x.kind + "|" + x.key; strings.HasPrefix(s, prefix) && strings.HasSuffix(s, suffix) {
			c++
		}
	}
	return c
}

func (k *zzKeeper) quality(ch pocutil.Hash) []byte {
	return sim.DetBytes("quality|"+k.name+"|"+hex.EncodeToString(ch[:8]), 1, 32)
}

func (k *zzKeeper) Start() error  { return nil }
func (k *zzKeeper) Stop() error   { return nil }
func (k *zzKeeper) Started() bool { return true }
func (k *zzKeeper) Type() string  { return "scripted" }
func (k *zzKeeper) WorkSpaceIDs(engine_v2.WorkSpaceStateFlags) ([]string, error) { return nil, nil }
func (k *zzKeeper) WorkSpaceInfos(engine_v2.WorkSpaceStateFlags) ([]engine_v2.WorkSpaceInfo, error) {
	return nil, nil
}
func (k *zzKeeper) GetQuality(context.Context, string, pocutil.Hash) ([]*engine_v2.WorkSpaceQuality, error) {
	return nil, fmt.Errorf("unused")
}
func (k *zzKeeper) GetQualities(ctx context.Context, flags engine_v2.WorkSpaceStateFlags, ch pocutil.Hash) ([]*engine_v2.WorkSpaceQuality, error) {
	k.calls = append(k.calls, zzKeeperCall{"qualities", hex.EncodeToString(ch[:]), time.Since(k.w.epoch)})
	if k.delay > 0 {
		zzSleep(k.delay)
	}
	var plot [32]byte
	copy(plot[:], sim.DetBytes("plot|"+k.name, 1, 32))
	return []*engine_v2.WorkSpaceQuality{{SpaceID: k.sid(), PublicKey: zzG1s[k.idx%len(zzG1s)], PoolPublicKey: zzG1s[(k.idx+1)%len(zzG1s)],
		Index: uint32(k.idx), KSize: 32, Quality: k.quality(ch), PlotID: plot}}, nil
}
func (k *zzKeeper) GetQualityReader(context.Context, string, pocutil.Hash) (engine_v2.QualityReader, error) {
	return nil, fmt.Errorf("unused")
}
func (k *zzKeeper) GetQualitiesReader(context.Context, engine_v2.WorkSpaceStateFlags, pocutil.Hash) (engine_v2.QualityReader, error) {
	return nil, fmt.Errorf("unused")
}
func (k *zzKeeper) GetProof(ctx context.Context, sid string, ch pocutil.Hash, index uint32) (*engine_v2.WorkSpaceProof, error) {
	k.calls = append(k.calls, zzKeeperCall{"proof", sid + "|" + hex.EncodeToString(ch[:]), time.Since(k.w.epoch)})
	if sid != k.sid() {
		return nil, fmt.Errorf("no such space")
	}
	pos := &chiapos.ProofOfSpace{Challenge: ch, PoolPublicKey: zzG1s[(k.idx+1)%len(zzG1s)], PlotPublicKey: zzG1s[k.idx%len(zzG1s)], KSize: 32,
		Proof: sim.DetBytes("proof|"+k.name+"|"+hex.EncodeToString(ch[:8]), 1, 64)}
	return &engine_v2.WorkSpaceProof{SpaceID: sid, Proof: pos, PublicKey: pos.PlotPublicKey, Ordinal: engine_v2.UnknownOrdinal}, nil
}
func (k *zzKeeper) GetProofs(context.Context, []string, pocutil.Hash, []uint32) ([]*engine_v2.WorkSpaceProof, error) {
	return nil, fmt.Errorf("unused")
}
func (k *zzKeeper) GetProofReader(context.Context, string, pocutil.Hash, uint32) (engine_v2.ProofReader, error) {
	return nil, fmt.Errorf("unused")
}
func (k *zzKeeper) GetProofsReader(context.Context, []string, pocutil.Hash, []uint32) (engine_v2.ProofReader, error) {
	return nil, fmt.Errorf("unused")
}
func (k *zzKeeper) ActOnWorkSpace(string, engine_v2.ActionType) error { return nil }
func (k *zzKeeper) ActOnWorkSpaces(engine_v2.WorkSpaceStateFlags, engine_v2.ActionType) (map[string]error, error) {
	return nil, nil
}
func (k *zzKeeper) SignHash(sid string, hash [32]byte) (*chiapos.G2Element, error) {
	k.calls = append(k.calls, zzKeeperCall{"sign", sid + "|" + hex.EncodeToString(hash[:]), time.Since(k.w.epoch)})
	if sid != k.sid() {
		return nil, fmt.Errorf("no such space")
	}
	return chiapos.Sign(chiapos.SchemeMPLAug, zzSKs[k.idx%len(zzSKs)], hash[:])
}
func (k *zzKeeper) GetPrivateKey(string) (*chiapos.PrivateKey, error) { return nil, fmt.Errorf("unused") }

// ---------------------------------------------------------------------------------------------
// topology: the processes of a cluster, wired the way mass.go (root) and fractal.go (relay,
// collector) wire them, over the simulated network

type zzNode struct {
	name     string
	idx      int
	upAddr   string  // address this node dials; "" = it is the root
	via      *zzNode // relay it hangs off (nil = root pool, or the root itself)
	poolAddr string  // address its collector pool listens on; "" = no pool
	keeper   *zzKeeper
	startAt  time.Duration
	prs      *PersistentRemoteSuperior
	stopPRS  context.CancelFunc
	lc       *LocalCollector
	stopLC   context.CancelFunc
	pool     *CollectorPool
	stopPool context.CancelFunc
	joinedAt time.Duration // when NewLocalCollector returned
	started  bool
	stopped  bool // stopped on purpose during the run
	startErr error
}

type zzNet struct {
	r        *sim.Run
	t        *sim.Tape
	b        *vsim.Bubble
	net      *simnet.Net
	epoch    time.Time
	ctx      context.Context
	root     *LocalSuperior
	rootNode *zzNode
	nodes    []*zzNode // every process except the root
	faults   bool
	healAt   time.Duration        // no new network faults after this moment
	cidName  map[uuid.UUID]string // collector id -> name of the process that dialled (ground truth, read from the pools)
	cutOff   map[string]bool      // partitioned nodes
	lost     map[string]bool      // processes that lost a connection to their superior while the script ran
}

// intact: the path from the root to n was never interrupted while the script ran.
func (w *zzNet) intact(n *zzNode) bool {
	for x := n; x != nil; x = x.via {
		if w.lost[x.name] {
			return false
		}
	}
	return true
}

// under reports whether n hangs (directly or through further relays) off the process called name.
func (n *zzNode) under(name string) bool {
	for x := n; x != nil; x = x.via {
		if x.name == name {
			return true
		}
	}
	return false
}

// reachable: n and every relay between it and the root were started and never shut down on purpose.
func (n *zzNode) reachable() bool {
	for x := n; x != nil; x = x.via {
		if x.stopped || !x.started {
			return false
		}
	}
	return true
}

func (w *zzNet) clock() string { return fmt.Sprintf("%.2fs", time.Since(w.epoch).Seconds()) }

func (w *zzNet) all() []*zzNode { return append([]*zzNode{w.rootNode}, w.nodes...) }

func (w *zzNet) linkFaults() simnet.Faults {
	t := w.t
	f := simnet.Faults{Latency: time.Duration(1+t.Choose("net.lat", 8)) * 25 * time.Millisecond, CutAfter: -1, SilentAfter: -1}
	if t.Bool("net.jittery", 1, 2) {
		f.Jitter = func() time.Duration { return time.Duration(t.Choose("net.jit", 4)) * 25 * time.Millisecond }
	}
	if t.Bool("net.chunky", 1, 2) {
		f.Chunk = func(n int) int { return 1 + t.Choose("net.chunk", n) }
	}
	if w.faults && time.Since(w.epoch) < w.healAt {
		switch t.Weighted("net.fault", []int{10, 3, 2, 2}) {
		case 1:
			f.CutAfter = t.Choose("net.cut", 6000)
		case 2:
			f.SilentAfter = t.Choose("net.silent", 6000)
		case 3:
			f.StallAt = t.Choose("net.stallat", 3000)
			f.StallFor = time.Duration(1+t.Choose("net.stallfor", 90)) * time.Second
		}
	}
	return f
}

// start brings a process up the way its main function does. Runs in a scheduled goroutine.
func (w *zzNet) start(n *zzNode) {
	ctx := context.WithValue(w.ctx, simnet.NodeKey, n.name)
	var sup Superior = w.root
	if n.upAddr != "" {
		prs, stop, err := NewPersistentRemoteSuperior(ctx, connection.DialAddress(n.upAddr))
		if err != nil {
			n.startErr = err
			w.r.Event("t=%s %s could not start: %v", w.clock(), n.name, err)
			return
		}
		n.prs, n.stopPRS = prs, stop
		sup = prs
	}
	if n.poolAddr != "" {
		pool, stop, err := NewCollectorPool(ctx, sup, CollectorPoolListenAddress(n.poolAddr))
		if err != nil {
			sim.EngineError("pool of %s: %v", n.name, err)
		}
		n.pool, n.stopPool = pool, stop
	}
	if n.keeper != nil {
		n.lc, n.stopLC = NewLocalCollector(ctx, sup, n.keeper)
	}
	n.joinedAt = time.Since(w.epoch)
	n.started = true
	w.r.Event("t=%s %s is up (superior %s)", w.clock(), n.name, zzOr(n.upAddr, "local"))
}

// zzSleep lets simulated time pass; the goroutine the clock woke parks again before it runs on.
func zzSleep(d time.Duration) {
	time.Sleep(d)
	vsim.Yield("woke from sleep")
}

func zzOr(a, b string) string {
	if a == "" {
		return b
	}
	return a
}

// stop shuts a process down the way its main function does on a signal; every call must return.
func (w *zzNet) stop(n *zzNode, order int) {
	fs := []func(){}
	if n.stopPRS != nil {
		fs = append(fs, n.stopPRS)
	}
	if n.stopPool != nil {
		fs = append(fs, n.stopPool)
	}
	if n.stopLC != nil {
		fs = append(fs, n.stopLC)
	}
	if order%2 == 1 {
		for i, j := 0, len(fs)-1; i < j; i, j = i+1, j-1 {
			fs[i], fs[j] = fs[j], fs[i]
		}
	}
	for _, f := range fs {
		f()
	}
}

// observe records who is behind which collector id: read from the pools' registries and the
// connections' remote addresses while every goroutine is blocked.
func (w *zzNet) observe() {
	for _, n := range w.all() {
		if n.pool == nil {
			continue
		}
		for id, c := range n.pool.collectors {
			if _, ok := w.cidName[id]; ok {
				continue
			}
			if rc, ok := c.(*RemoteCollector); ok {
				if wr, ok := rc.writer.(*RemoteRequestWriter); ok && wr.sender != nil && wr.sender.conn != nil {
					name := wr.sender.conn.RemoteAddr().String()
					if k := strings.Index(name, "#"); k >= 0 {
						name = name[:k]
					}
					w.cidName[id] = name
				}
			}
		}
		if n.lc != nil {
			w.cidName[n.lc.ID()] = n.name
		}
	}
	for _, n := range w.nodes {
		if n.lc != nil {
			w.cidName[n.lc.ID()] = n.name
		}
	}
}

func (w *zzNet) node(name string) *zzNode {
	for _, n := range w.all() {
		if n.name == name {
			return n
		}
	}
	return nil
}

// behind lists the processes with spaces that the root reaches through the process called name.
func (w *zzNet) behind(name string) []*zzNode {
	var out []*zzNode
	for _, n := range w.all() {
		if n.keeper == nil {
			continue
		}
		if n.under(name) {
			out = append(out, n)
		}
	}
	return out
}

// ---------------------------------------------------------------------------------------------
// tasks issued by the (scripted) miner on top of the root superior, the way the v2 miner does

type zzTask struct {
	id        uuid.UUID
	kind      string // qualities proof sign
	challenge pocutil.Hash
	target    uuid.UUID // uuid.Nil = broadcast
	space     string    // targeted: the space asked for
	addedAt   time.Duration
	removedAt time.Duration
	removed   bool
	ch        chan *CollectorMsg
	got       []*CollectorMsg
	gotAt     []time.Duration
}

type zzMinerScript struct {
	w     *zzNet
	tasks []*zzTask
	ctr   uint64
}

func (m *zzMinerScript) newID() uuid.UUID {
	m.ctr++
	var u uuid.UUID
	copy(u[:], sim.DetBytes("taskid", m.ctr, 16))
	u[6] = (u[6] & 0x0f) | 0x40
	u[8] = (u[8] & 0x3f) | 0x80
	return u
}

func (m *zzMinerScript) broadcastQualities() *zzTask {
	w := m.w
	tk := &zzTask{id: m.newID(), kind: "qualities", addedAt: time.Since(w.epoch)}
	copy(tk.challenge[:], sim.DetBytes("challenge", m.ctr, 32))
	req := &protocol.RequestQualities{TaskID: tk.id, Challenge: tk.challenge, ParentTarget: big.NewInt(4096),
		ParentSlot: uint64(time.Now().Unix())/3 - 1, Height: 2000000}
	w.r.Event("t=%s AddTask broadcast qualities %s", w.clock(), tk.id.String()[:8])
	tk.ch = w.root.AddTask(w.ctx, uuid.Nil, req)
	m.tasks = append(m.tasks, tk)
	return tk
}

func (m *zzMinerScript) targeted(kind string, cid uuid.UUID, space string, ch pocutil.Hash) *zzTask {
	w := m.w
	tk := &zzTask{id: m.newID(), kind: kind, target: cid, space: space, challenge: ch, addedAt: time.Since(w.epoch)}
	var req protocol.Message
	if kind == "proof" {
		req = &protocol.RequestProof{TaskID: tk.id, Height: 2000000, SpaceID: space, Challenge: ch, Index: 0}
	} else {
		req = &protocol.RequestSignature{TaskID: tk.id, Height: 2000000, SpaceID: space, Hash: ch}
	}
	w.r.Event("t=%s AddTask %s %s for %s -> collector %s", w.clock(), kind, tk.id.String()[:8], space, cid.String()[:8])
	tk.ch = w.root.AddTask(w.ctx, cid, req)
	m.tasks = append(m.tasks, tk)
	return tk
}

// drain reads a task's channel for d of simulated time, or until n reports arrived (n > 0).
func (m *zzMinerScript) drain(tk *zzTask, d time.Duration, n int) {
	deadline := time.NewTimer(d)
	defer deadline.Stop()
	for n <= 0 || len(tk.got) < n {
		select {
		case msg, ok := <-tk.ch:
			vsim.Yield("waiter woke")
			if !ok {
				return
			}
			tk.got = append(tk.got, msg)
			tk.gotAt = append(tk.gotAt, time.Since(m.w.epoch))
		case <-deadline.C:
			vsim.Yield("waiter woke")
			return
		}
	}
}

func (m *zzMinerScript) remove(tk *zzTask) {
	m.w.r.Event("t=%s RemoveTask %s (%d reports read)", m.w.clock(), tk.id.String()[:8], len(tk.got))
	t0 := time.Now()
	m.w.root.RemoveTask(tk.id)
	if d := time.Since(t0); d > time.Second {
		m.w.r.Fail("C17/remove-not-prompt/"+tk.kind, "RemoveTask of %s took %v of simulated time", tk.id.String()[:8], d)
	}
	tk.removed, tk.removedAt = true, time.Since(m.w.epoch)
}

// ---------------------------------------------------------------------------------------------
// C17

const zzGrid = 250 * time.Millisecond // moments are chosen on a grid so that coincidences are frequent

func zzRunC17(r *sim.Run) {
	t := r.T
	vsim.TakePanics()
	b := vsim.NewBubble(t.Choose)
	w := &zzNet{r: r, t: t, b: b, faults: r.Config == "faults", cidName: map[uuid.UUID]string{}, cutOff: map[string]bool{}, lost: map[string]bool{}}
	m := &zzMinerScript{w: w}
	if p := os.Getenv("VERIF_SCHEDTRACE"); p != "" {
		f, _ := os.Create(p)
		defer f.Close()
		b.Trace = func(format string, args ...interface{}) { fmt.Fprintf(f, format+"\n", args...) }
	}
	uuid.SetRand(sim.NewDetReader(sim.Mix(r.Seed, 77)))
	defer uuid.SetRand(nil)
	var scriptDone, shutdownDone bool
	var hung string
	var freshTask, stalled *zzTask
	_, perr := vsim.RunBubble(zzT, b, func() {
		w.epoch = time.Now()
		w.net = simnet.NewNet()
		simnet.Cur = w.net
		w.net.FaultsFor = func(from, to string) (simnet.Faults, simnet.Faults) { return w.linkFaults(), w.linkFaults() }
		w.net.DialDelay = func() time.Duration { return time.Duration(t.Choose("net.dial", 4)) * zzGrid }
		w.net.Unreachable = func(from, to string) bool { return w.cutOff[from] }
		w.ctx = context.Background()
		if w.faults {
			w.healAt = time.Duration(40+t.Choose("heal.at", 80)) * time.Second
		}
		// the processes
		w.root = NewLocalSuperior()
		w.rootNode = &zzNode{name: "root", poolAddr: "root:9690"}
		if t.Bool("root.local", 1, 3) {
			w.rootNode.keeper = &zzKeeper{w: w, name: "root", idx: 5}
		}
		var relay *zzNode
		if t.Bool("relay", 1, 3) {
			relay = &zzNode{name: "relay", upAddr: "root:9690", poolAddr: "relay:9690", startAt: time.Duration(t.Choose("start.at", 8)) * zzGrid}
			if t.Bool("relay.local", 1, 3) {
				relay.keeper = &zzKeeper{w: w, name: "relay", idx: 4}
			}
			w.nodes = append(w.nodes, relay)
		}
		// sometimes a second relay behind the first (reports and tasks cross two relays)
		var relay2 *zzNode
		if relay != nil && t.Bool("relay2", 1, 3) {
			relay2 = &zzNode{name: "relay2", upAddr: "relay:9690", via: relay, poolAddr: "relay2:9690", startAt: time.Duration(t.Choose("start.at", 8)) * zzGrid}
			w.nodes = append(w.nodes, relay2)
		}
		nCol := 1 + t.Choose("ncollectors", 4)
		for i := 0; i < nCol; i++ {
			n := &zzNode{name: fmt.Sprintf("C%d", i), idx: i, upAddr: "root:9690", startAt: time.Duration(t.Choose("start.at", 8)) * zzGrid}
			if relay != nil && t.Bool("behind-relay", 1, 2) {
				n.upAddr, n.via = "relay:9690", relay
				if relay2 != nil && t.Bool("behind-relay2", 1, 2) {
					n.upAddr, n.via = "relay2:9690", relay2
				}
			}
			if t.Bool("late", 1, 4) {
				n.startAt += time.Duration(8+t.Choose("late.by", 40)) * zzGrid
			}
			n.keeper = &zzKeeper{w: w, name: n.name, idx: i, delay: time.Duration(t.Choose("keeper.delay", 4)) * zzGrid}
			w.nodes = append(w.nodes, n)
		}
		b.OnQuiescent = w.observe
		w.start(w.rootNode)
		for _, n := range w.nodes {
			n := n
			b.Go("main "+n.name, func() {
				zzSleep(n.startAt)
				w.start(n)
			})
		}
		stallWaiter := t.Bool("stallwaiter", 1, 3)
		// disturbances: connections reset, processes stopped, nodes partitioned - all before healAt
		if w.faults {
			b.Go("heal", func() {
				zzSleep(w.healAt)
				for _, c := range w.net.Conns {
					c.Disarm()
				}
				w.r.Event("t=%s the network is whole from now on", w.clock())
			})
			nd := t.Choose("ndisturb", 4)
			for i := 0; i < nd; i++ {
				at := time.Duration(t.Choose("disturb.at", int(w.healAt/zzGrid))) * zzGrid
				kind := t.Weighted("disturb.kind", []int{3, 2, 2})
				who := t.Choose("disturb.who", len(w.nodes))
				ord := t.Choose("disturb.order", 2)
				b.Go("disturbance", func() {
					zzSleep(at)
					n := w.nodes[who]
					switch kind {
					case 0:
						for _, c := range w.net.Conns {
							if strings.HasPrefix(c.Name(), n.name+"#") && !c.Closed() {
								w.r.Event("t=%s connection %s -> %s is reset", w.clock(), c.Name(), c.Peer())
								r.Fault("conn-reset")
								c.Cut()
							}
						}
					case 1:
						if n.started && !n.stopped {
							n.stopped = true
							w.r.Event("t=%s %s is shut down", w.clock(), n.name)
							r.Fault("process-stop")
							t0 := time.Now()
							w.stop(n, ord)
							if d := time.Since(t0); d > 5*time.Second {
								r.Fail("C17/stop-not-prompt/"+zzRole(n), "stopping %s took %v of simulated time", n.name, d)
							}
							w.r.Event("t=%s %s is down", w.clock(), n.name)
						}
					case 2:
						w.r.Event("t=%s %s is partitioned off", w.clock(), n.name)
						r.Fault("partition")
						w.cutOff[n.name] = true
						for _, c := range w.net.Conns {
							if strings.HasPrefix(c.Name(), n.name+"#") && !c.Closed() {
								c.Cut()
							}
						}
						zzSleep(w.healAt - time.Since(w.epoch))
						delete(w.cutOff, n.name)
						w.r.Event("t=%s partition of %s healed", w.clock(), n.name)
					}
				})
			}
		}
		b.Go("miner-script", func() {
			defer func() { scriptDone = true }()
			zzSleep(time.Duration(2+t.Choose("warmup", 14)) * zzGrid)
			// round 1: broadcast, read reports, ask one reporter for proof and signature (v2 miner's sequence)
			t1 := m.broadcastQualities()
			m.drain(t1, time.Duration(t.Choose("drain1", 64))*zzGrid, 0)
			if stallWaiter {
				// the waiter stops reading for a while before it removes the task
				stalled = t1
				zzSleep(time.Duration(1+t.Choose("stall.for", 80)) * time.Second)
			}
			m.remove(t1)
			if k := len(t1.got); k > 0 {
				msg := t1.got[t.Choose("pick.report", k)]
				if rq, ok := msg.Msg.(*protocol.ReportQualities); ok && len(rq.Qualities) > 0 {
					space := rq.Qualities[0].SpaceID
					tp := m.targeted("proof", msg.CollectorID, space, t1.challenge)
					m.drain(tp, 5*time.Second, 1)
					m.remove(tp)
					var h pocutil.Hash
					copy(h[:], sim.DetBytes("pochash", uint64(t.Choose("pochash", 4)), 32))
					ts := m.targeted("sign", msg.CollectorID, space, h)
					m.drain(ts, 5*time.Second, 1)
					m.remove(ts)
				}
			}
			// round 2, after the network has healed and everybody had time to reconnect:
			// a fresh broadcast must get through
			if w.faults {
				if d := w.healAt + 200*time.Second - time.Since(w.epoch); d > 0 {
					zzSleep(d)
				}
			} else {
				zzSleep(time.Duration(t.Choose("gap", 40)) * zzGrid)
			}
			freshTask = m.broadcastQualities()
			m.drain(freshTask, 40*time.Second, 0)
			m.remove(freshTask)
		})
		reason := b.RunUntil(func() bool { return scriptDone }, 30*time.Minute, 400000, false)
		if reason != vsim.Done {
			hung = "miner-script/" + zzReason(reason)
		}
		for _, c := range w.net.Conns {
			if c.Closed() {
				name := c.Name()
				if k := strings.Index(name, "#"); k >= 0 {
					name = name[:k]
				}
				if !w.lost[name] {
					w.lost[name] = true
					r.Event("(network) %s lost a connection to its superior during the script", name)
				}
			}
		}
		// shutdown of every process: every stop call must return
		if hung == "" {
			perm := make([]*zzNode, 0)
			for _, n := range w.all() {
				if !n.stopped && n.started {
					perm = append(perm, n)
				}
			}
			if t.Bool("stop.reverse", 1, 2) {
				for i, j := 0, len(perm)-1; i < j; i, j = i+1, j-1 {
					perm[i], perm[j] = perm[j], perm[i]
				}
			}
			ord := t.Choose("stop.order", 2)
			var stopping string
			b.Go("shutdown", func() {
				defer func() { shutdownDone = true }()
				for _, n := range perm {
					stopping = n.name + " (" + zzRole(n) + ")"
					w.stop(n, ord)
				}
				stopping = ""
				w.root.Release()
			})
			reason := b.RunUntil(func() bool { return shutdownDone }, 10*time.Minute, 200000, false)
			if reason != vsim.Done {
				role := "?"
				if k := strings.Index(stopping, "("); k >= 0 {
					role = strings.Trim(stopping[k:], "()")
				}
				hung = "shutdown-" + role + "/" + zzReason(reason)
				r.Event("shutdown hangs while stopping %s", stopping)
			}
		}
		b.RunUntil(func() bool { return false }, 90*time.Second, 20000, false)
		r.SimTime += time.Since(w.epoch)
		var flog []simnet.FaultEvent
		for _, c := range w.net.Conns {
			flog = append(flog, c.FaultLog()...)
		}
		sort.SliceStable(flog, func(i, j int) bool {
			if !flog[i].At.Equal(flog[j].At) {
				return flog[i].At.Before(flog[j].At)
			}
			return flog[i].Conn < flog[j].Conn
		})
		for _, e := range flog {
			r.Event("(network) t=%.2fs %s %s", e.At.Sub(w.epoch).Seconds(), e.Conn, e.What)
		}
		for _, c := range w.net.Conns {
			cut, silent, stall := c.Fired()
			for i := 0; i < cut; i++ {
				r.Fault("conn-cut-at-offset")
			}
			for i := 0; i < silent; i++ {
				r.Fault("conn-half-open")
			}
			for i := 0; i < stall; i++ {
				r.Fault("conn-stall")
			}
		}
		r.Count("dials", w.net.Dials)
		r.Count("dials-refused", w.net.Refused)
		r.Count("dials-timed-out", w.net.TimedOut)
		b.KillAll()
	})
	r.Preempts += b.Preempt
	r.Count("sched-steps", b.Steps)
	if perr != nil {
		r.Fail("C17/panic/bubble", "bubble ended with panic: %v", perr)
	}
	for _, gp := range vsim.TakePanics() {
		r.Fail("C17/panic/"+sim.PanicSite(gp.Stack), "goroutine %s panicked: %v", gp.Site, gp.Val)
	}
	if hung != "" {
		r.Fail("C17/never-returns/"+hung, "%s did not finish: live goroutines %v", hung, zzSites(b.LiveGoroutines()))
		return
	}
	r.Ops += len(m.tasks) * 3
	// reach: which of the situations the property speaks about did this run get into
	if w.net.Dials > len(w.nodes) {
		r.Probe("reconnect")
	}
	if stalled != nil {
		r.Probe("waiter-stalled-before-remove")
	}
	if len(w.lost) > 0 && !w.faults {
		r.Probe("connection-lost-through-keepalive-timeout")
	}
	for _, n := range w.nodes {
		if len(m.tasks) == 0 {
			break
		}
		if n.via != nil && n.keeper != nil && n.keeper.count("qualities|"+hex.EncodeToString(m.tasks[0].challenge[:])) > 0 {
			r.Probe("task-through-relay")
			if n.via.via != nil {
				r.Probe("task-through-two-relays")
			}
		}
		if n.keeper != nil && n.started && n.joinedAt > m.tasks[0].addedAt && n.joinedAt < m.tasks[0].removedAt &&
			n.keeper.count("qualities|"+hex.EncodeToString(m.tasks[0].challenge[:])) > 0 {
			r.Probe("late-subscriber-got-current-task")
		}
		if n.started && n.joinedAt == m.tasks[0].addedAt {
			r.Probe("subscribe-coincides-with-broadcast")
		}
	}
	for _, tk := range m.tasks {
		if tk.kind != "qualities" && len(tk.got) > 0 {
			r.Probe("targeted-round-trip")
			break
		}
	}
	zzCheckRouting(r, w, m, freshTask, stalled)
	h := fnv.New64a()
	fmt.Fprint(h, len(w.nodes), len(m.tasks), w.net.Dials)
	r.State(h.Sum64())
}

func zzRole(n *zzNode) string {
	switch {
	case n.upAddr == "":
		return "root"
	case n.poolAddr != "":
		return "relay"
	}
	return "collector"
}

func zzSites(s []string) []string {
	out := map[string]int{}
	for _, x := range s {
		if i := strings.LastIndex(x, "/"); i >= 0 {
			x = x[i+1:]
		}
		out[x]++
	}
	var l []string
	for k, v := range out {
		l = append(l, fmt.Sprintf("%s x%d", k, v))
	}
	sort.Strings(l)
	return l
}

func zzReason(s vsim.StopReason) string {
	return [...]string{"done", "blocked for good", "time horizon", "step budget"}[s]
}

func zzCheckRouting(r *sim.Run, w *zzNet, m *zzMinerScript, fresh, stalled *zzTask) {
	keeperOf := func(space string) *zzNode {
		for _, n := range w.all() {
			if n.keeper != nil && n.keeper.sid() == space {
				return n
			}
		}
		return nil
	}
	for _, tk := range m.tasks {
		lastSlot := map[string]uint64{}
		for i, msg := range tk.got {
			if msg == nil || msg.Msg == nil {
				r.Fail("C17/nil-report/"+tk.kind, "a nil report was delivered to the waiter of task %s", tk.id.String()[:8])
				continue
			}
			if msg.Msg.ID() != tk.id {
				r.Fail("C17/report-to-wrong-task/"+tk.kind, "the waiter of task %s received a report that names task %s", tk.id.String()[:8], msg.Msg.ID().String()[:8])
				continue
			}
			name, ok := w.cidName[msg.CollectorID]
			if !ok {
				r.Fail("C17/unknown-collector-tag/"+tk.kind, "report tagged with collector %s, which never was a collector of the root", msg.CollectorID.String()[:8])
				continue
			}
			reach := w.behind(name)
			in := func(n *zzNode) bool {
				for _, x := range reach {
					if x == n {
						return true
					}
				}
				return false
			}
			switch rep := msg.Msg.(type) {
			case *protocol.ReportQualities:
				if tk.kind != "qualities" {
					r.Fail("C17/wrong-report-type/"+tk.kind, "task %s (%s) received a qualities report", tk.id.String()[:8], tk.kind)
				}
				for _, q := range rep.Qualities {
					src := keeperOf(q.SpaceID)
					if src == nil || !in(src) {
						r.Fail("C17/wrong-collector-tag/qualities", "quality of space %s arrived tagged with collector %s (%s), behind which that space does not live", q.SpaceID, msg.CollectorID.String()[:8], name)
						continue
					}
					if !bytes.Equal(q.Quality, src.keeper.quality(tk.challenge)) || q.KSize != 32 || q.Index != uint32(src.keeper.idx) || !q.PublicKey.Equals(zzG1s[src.keeper.idx%len(zzG1s)]) {
						r.Fail("C17/payload-modified/qualities", "quality report of %s for task %s does not carry what its keeper produced", src.name, tk.id.String()[:8])
					}
					key := msg.CollectorID.String() + q.SpaceID
					if last, seen := lastSlot[key]; seen && q.Slot <= last && src.keeper.count("qualities|"+hex.EncodeToString(tk.challenge[:])) <= 1 {
						r.Fail("C17/reports-out-of-order/qualities", "reports of %s for task %s arrived out of order: slot %d after slot %d", src.name, tk.id.String()[:8], q.Slot, last)
					}
					lastSlot[key] = q.Slot
				}
			case *protocol.ReportProof:
				if tk.kind != "proof" || rep.Proof == nil || rep.Proof.Proof == nil {
					r.Fail("C17/wrong-report-type/"+tk.kind, "task %s (%s) received a proof report", tk.id.String()[:8], tk.kind)
					break
				}
				src := keeperOf(tk.space)
				if src == nil || rep.Proof.SpaceID != tk.space || msg.CollectorID != tk.target ||
					!bytes.Equal(rep.Proof.Proof.Proof, sim.DetBytes("proof|"+src.name+"|"+hex.EncodeToString(tk.challenge[:8]), 1, 64)) {
					r.Fail("C17/payload-modified/proof", "proof report for task %s is not what the target's keeper produced (space %s via %s)", tk.id.String()[:8], rep.Proof.SpaceID, msg.CollectorID.String()[:8])
				}
			case *protocol.ReportSignature:
				if tk.kind != "sign" {
					r.Fail("C17/wrong-report-type/"+tk.kind, "task %s (%s) received a signature report", tk.id.String()[:8], tk.kind)
					break
				}
				src := keeperOf(tk.space)
				okSig := false
				if src != nil && rep.Signature != nil {
					okSig, _ = chiapos.Verify(chiapos.SchemeMPLAug, zzG1s[src.keeper.idx%len(zzG1s)], tk.challenge[:], rep.Signature)
				}
				if !okSig || rep.Hash != tk.challenge || rep.SpaceID != tk.space || msg.CollectorID != tk.target {
					r.Fail("C17/payload-modified/signature", "signature report for task %s does not verify under the target space's key", tk.id.String()[:8])
				}
			}
			if tk.removed && tk.gotAt[i] > tk.removedAt {
				r.Fail("C17/delivery-after-remove/"+tk.kind, "a report for task %s was delivered after it had been removed", tk.id.String()[:8])
			}
		}
	}
	// deliveries of tasks to collectors, as seen by the scripted keepers
	for _, n := range w.all() {
		if n.keeper == nil {
			continue
		}
		for _, tk := range m.tasks {
			chx := hex.EncodeToString(tk.challenge[:])
			switch tk.kind {
			case "qualities":
				c := n.keeper.count("qualities|" + chx)
				if c > 1 && !w.faults && w.intact(n) {
					// (with connection faults a collector legitimately gets the current task again after it reconnects)
					r.Fail("C17/task-delivered-twice/qualities", "broadcast task %s reached collector %s %d times", tk.id.String()[:8], n.name, c)
				}
				if c == 0 && !w.faults && w.intact(n) && n.started && n.joinedAt < tk.removedAt-5*time.Second {
					r.Fail("C17/task-not-delivered/qualities", "broadcast task %s (current from %.2fs to %.2fs) never reached collector %s (up at %.2fs), although its path was intact all the time",
						tk.id.String()[:8], tk.addedAt.Seconds(), tk.removedAt.Seconds(), n.name, n.joinedAt.Seconds())
				}
			case "proof", "sign":
				name := w.cidName[tk.target]
				isBehind := false
				for _, x := range w.behind(name) {
					if x == n {
						isBehind = true
					}
				}
				c := n.keeper.countSuffix(tk.kind+"|", "|"+chx)
				if c > 0 && !isBehind {
					r.Fail("C17/targeted-task-leaked/"+tk.kind, "targeted task %s for collector %s (%s) also reached %s", tk.id.String()[:8], tk.target.String()[:8], name, n.name)
				}
				if isBehind && c > 1 {
					r.Fail("C17/task-delivered-twice/"+tk.kind, "targeted task %s reached %s %d times", tk.id.String()[:8], n.name, c)
				}
				if isBehind && c == 0 && !w.faults && w.intact(n) && n.keeper.sid() == tk.space {
					r.Fail("C17/task-not-delivered/"+tk.kind, "targeted task %s never reached %s", tk.id.String()[:8], n.name)
				}
				// the answer the keeper produced reaches the waiter, who went on reading for seconds
				if isBehind && c == 1 && !w.faults && w.intact(n) && n.keeper.sid() == tk.space && len(tk.got) == 0 {
					if at := n.keeper.lastCall(tk.kind + "|"); tk.removedAt > at+3*time.Second {
						r.Fail("C17/report-lost/"+tk.kind, "the keeper of %s answered task %s at %.2fs, the waiter read until %.2fs and never received the report", n.name, tk.id.String()[:8], at.Seconds(), tk.removedAt.Seconds())
					}
				}
			}
		}
	}
	// liveness: the fresh broadcast, issued after the network healed, is answered by every process
	// with spaces that was not shut down on purpose (nor sits behind a relay that was)
	if fresh != nil {
		seen := map[string]bool{}
		for _, msg := range fresh.got {
			if rq, ok := msg.Msg.(*protocol.ReportQualities); ok {
				for _, q := range rq.Qualities {
					seen[q.SpaceID] = true
				}
			}
		}
		for _, n := range w.all() {
			if n.keeper == nil || !n.reachable() || n.joinedAt+10*time.Second > fresh.removedAt {
				// (shut down on purpose, behind a relay that was, or up for less than ten seconds
				// of the task's life: nothing is demanded)
				continue
			}
			if !seen[n.keeper.sid()] {
				check := "fresh-task-no-round-trip"
				if stalled != nil && !w.faults {
					check = "blocked-after-stalled-waiter"
				}
				r.Fail("C17/"+check+"/"+zzRole(n), "the fresh broadcast %s (at %.0fs) got no report from %s within 40 simulated seconds, although the network is whole again and %s was never shut down (reports read: %d)",
					fresh.id.String()[:8], fresh.addedAt.Seconds(), n.name, n.name, len(fresh.got))
			}
		}
	}
}

// ---------------------------------------------------------------------------------------------
// C16: the codec on the real receive path

func zzRunC16(r *sim.Run) {
	t := r.T
	vsim.TakePanics()
	b := vsim.NewBubble(t.Choose)
	uuid.SetRand(sim.NewDetReader(sim.Mix(r.Seed, 78)))
	defer uuid.SetRand(nil)
	byz := r.Config == "byzantine"
	limit := []int{64 << 10, 256 << 10, 2 << 20}[t.Choose("recv.limit", 3)]
	var done bool
	var hung string
	var sentMsgs []zzSent
	var recvd []protocol.Message
	var recvClosed bool
	var heapGrowth uint64
	var expectClose bool
	_, perr := vsim.RunBubble(zzT, b, func() {
		ctx, cancel := context.WithCancel(context.Background())
		f := simnet.Faults{Latency: 5 * time.Millisecond, CutAfter: -1, SilentAfter: -1}
		if t.Bool("chunky", 1, 2) {
			f.Chunk = func(n int) int { return 1 + t.Choose("chunk", n) }
			// the pieces of a frame arrive at different moments: a read may return any prefix
			f.Jitter = func() time.Duration { return time.Duration(t.Choose("chunk.gap", 4)) * time.Millisecond }
		}
		a, bb := simnet.Pipe("peer", "node", f, simnet.Faults{Latency: 5 * time.Millisecond, CutAfter: -1, SilentAfter: -1})
		// the node under test: a connection with a receiver that accepts all six types
		// the receive limit is set through the public option (tape-chosen), not assumed
		nconn, ncancel, err := connection.NewConn(connection.WithNetConn(bb), connection.WithContext(ctx), connection.MaxRecvMsgSize(uint32(limit)))
		if err != nil {
			sim.EngineError("conn: %v", err)
		}
		all := map[protocol.MsgType]bool{protocol.MsgTypeRequestQualities: false, protocol.MsgTypeReportQualities: false, protocol.MsgTypeRequestProof: true,
			protocol.MsgTypeReportProof: true, protocol.MsgTypeRequestSignature: true, protocol.MsgTypeReportSignature: true}
		receiver, rcancel := NewMessageReceiver(ctx, nconn, all)
		var pconn *connection.Conn
		var pcancel context.CancelFunc
		var sender *MessageSender
		var scancel context.CancelFunc
		if !byz {
			pconn, pcancel, err = connection.NewConn(connection.WithNetConn(a), connection.WithContext(ctx))
			if err != nil {
				sim.EngineError("conn: %v", err)
			}
			sender, scancel = NewMessageSender(ctx, pconn, all)
		}
		b.Go("reader", func() {
			for {
				rctx, c := context.WithTimeout(ctx, 20*time.Second)
				msg, err := receiver.SafeReadChannel(rctx)
				c()
				if err != nil {
					recvClosed = !strings.Contains(err.Error(), "deadline")
					return
				}
				recvd = append(recvd, msg)
			}
		})
		b.Go("peer", func() {
			defer func() { done = true }()
			n := 1 + t.Choose("nmsgs", 6)
			var ms runtime.MemStats
			runtime.ReadMemStats(&ms)
			heap0 := ms.HeapSys
			for i := 0; i < n; i++ {
				msg, desc := zzGenMessage(t)
				if !byz {
					sentMsgs = append(sentMsgs, zzSent{msg, desc})
					if err := sender.SafeSendChannel(ctx, msg); err != nil {
						r.Event("send %s -> %v", desc, err)
					}
					continue
				}
				// byzantine peer: raw frames on the stream
				frame, fdesc, kind := zzHostileFrame(t, msg, desc, limit)
				r.Event("peer writes %s (%d bytes)", fdesc, len(frame))
				r.Count("frames:"+[...]string{"valid", "noise", "malformed", "oversize"}[kind], 1)
				switch kind {
				case zzFrameValid:
					if !expectClose {
						sentMsgs = append(sentMsgs, zzSent{msg, desc})
					}
				case zzFrameHostile:
					expectClose = true
				}
				a.Write(frame)
				zzSleep(50 * time.Millisecond)
				if kind == zzFrameOversize && !expectClose {
					// (only while the byte stream is still in step: after a malformed frame the
					// prefix may be swallowed as somebody's body)
					// a length prefix above the receive limit is refused before anything is allocated
					// or read: the node drops the connection at once
					zzSleep(time.Second)
					if !a.Closed() {
						r.Fail("C16/oversize-frame-accepted/length-prefix", "the node keeps the connection and waits for the body of a frame announced as %s, with a receive limit of %d bytes", fdesc, limit)
					}
					expectClose = true
				}
			}
			zzSleep(3 * time.Second)
			runtime.ReadMemStats(&ms)
			if ms.HeapSys > heap0 {
				heapGrowth = ms.HeapSys - heap0
			}
			if byz {
				a.Close()
			}
			zzSleep(time.Second)
			if scancel != nil {
				scancel()
				pcancel()
			}
			rcancel()
			ncancel()
			cancel()
		})
		reason := b.RunUntil(func() bool { return done }, 10*time.Minute, 100000, false)
		if reason != vsim.Done {
			hung = zzReason(reason)
		}
		b.RunUntil(func() bool { return false }, 70*time.Second, 5000, false)
		b.KillAll()
	})
	r.Preempts += b.Preempt
	r.Ops += len(sentMsgs) + 2
	if perr != nil {
		r.Fail("C16/panic/bubble", "bubble ended with panic: %v", perr)
	}
	for _, gp := range vsim.TakePanics() {
		r.Fail("C16/panic/"+sim.PanicSite(gp.Stack), "goroutine %s panicked while handling bytes from the peer: %v", gp.Site, gp.Val)
	}
	if hung != "" {
		r.Fail("C16/hangs/"+hung, "the receive path did not come to rest: %s", hung)
		return
	}
	if heapGrowth > 256<<20 {
		// (a threshold on the Go heap of this process: outside the replayed event log)
		r.FailUnhashed("C16/memory-exhaustion/oversize-frame", "the heap grew by %d MiB while receiving hostile frames", heapGrowth>>20)
	}
	// lossless: what arrived equals what was sent, in order per lane
	if !r.Failed() {
		zzCompareStreams(r, byz, sentMsgs, recvd, expectClose, recvClosed)
	}
	h := fnv.New64a()
	fmt.Fprint(h, len(sentMsgs), len(recvd), byz)
	r.State(h.Sum64())
}

type zzSent struct {
	msg  protocol.Message
	desc string
}

func zzCompareStreams(r *sim.Run, byz bool, sent []zzSent, recvd []protocol.Message, expectClose, closed bool) {
	// real sender: the priority lane may overtake the normal lane, within a lane order is kept;
	// raw frames (byzantine mode) arrive in the order written
	lane := func(m protocol.Message) int {
		if byz {
			return 0
		}
		switch m.MsgType() {
		case protocol.MsgTypeRequestQualities, protocol.MsgTypeReportQualities:
			return 0
		}
		return 1
	}
	for l := 0; l < 2; l++ {
		var s []zzSent
		var g []protocol.Message
		for _, x := range sent {
			if lane(x.msg) == l {
				s = append(s, x)
			}
		}
		for _, x := range recvd {
			if lane(x) == l {
				g = append(g, x)
			}
		}
		for i := 0; i < len(s) && i < len(g); i++ {
			if d := zzMsgDiff(s[i].msg, g[i]); d != "" {
				r.Fail("C16/not-lossless/"+zzTypeName(s[i].msg), "%s decoded to a different message: %s", s[i].desc, d)
				return
			}
		}
		// (after a malformed frame the receiver may or may not have gone on; what it delivers
		// beyond the well-formed prefix is not compared)
		if len(g) > len(s) && !expectClose {
			r.Fail("C16/phantom-message/lane", "%d messages were delivered, %d were sent", len(g), len(s))
		}
		if len(g) < len(s) {
			r.Fail("C16/message-lost/"+zzTypeName(s[len(g)].msg), "%s was sent in good order on an intact connection but never delivered (%d of %d arrived)", s[len(g)].desc, len(g), len(s))
		}
	}
}

func zzTypeName(m protocol.Message) string {
	return strings.TrimPrefix(fmt.Sprintf("%T", m), "*protocol.")
}

func zzMsgDiff(a, b protocol.Message) string {
	if a.MsgType() != b.MsgType() {
		return fmt.Sprintf("type %v vs %v", a.MsgType(), b.MsgType())
	}
	if a.ID() != b.ID() {
		return "task id differs"
	}
	switch x := a.(type) {
	case *protocol.RequestQualities:
		y := b.(*protocol.RequestQualities)
		if x.Challenge != y.Challenge || x.ParentSlot != y.ParentSlot || x.Height != y.Height || x.ParentTarget.Cmp(y.ParentTarget) != 0 {
			return fmt.Sprintf("fields differ: target %v vs %v", x.ParentTarget, y.ParentTarget)
		}
	case *protocol.ReportQualities:
		y := b.(*protocol.ReportQualities)
		if len(x.Qualities) != len(y.Qualities) {
			return fmt.Sprintf("%d vs %d qualities", len(x.Qualities), len(y.Qualities))
		}
		for i := range x.Qualities {
			p, q := x.Qualities[i], y.Qualities[i]
			if p.SpaceID != q.SpaceID || p.Index != q.Index || p.KSize != q.KSize || p.Slot != q.Slot || !bytes.Equal(p.Quality, q.Quality) ||
				p.PlotID != q.PlotID || !p.PublicKey.Equals(q.PublicKey) || !p.PoolPublicKey.Equals(q.PoolPublicKey) {
				return fmt.Sprintf("quality %d differs (space %q vs %q, slot %d vs %d)", i, p.SpaceID, q.SpaceID, p.Slot, q.Slot)
			}
		}
	case *protocol.RequestProof:
		y := b.(*protocol.RequestProof)
		if *x != *y {
			return "fields differ"
		}
	case *protocol.ReportProof:
		y := b.(*protocol.ReportProof)
		p, q := x.Proof, y.Proof
		if p.SpaceID != q.SpaceID || p.Proof.Challenge != q.Proof.Challenge || p.Proof.KSize != q.Proof.KSize || !bytes.Equal(p.Proof.Proof, q.Proof.Proof) ||
			!p.Proof.PlotPublicKey.Equals(q.Proof.PlotPublicKey) || !p.Proof.PoolPublicKey.Equals(q.Proof.PoolPublicKey) || p.Proof.PuzzleHash != q.Proof.PuzzleHash {
			return "proof fields differ"
		}
		// what the receiver derives: the key the miner puts into the header, the ordinal
		if p.PublicKey == nil || q.PublicKey == nil || !p.PublicKey.Equals(q.PublicKey) || p.Ordinal != q.Ordinal {
			return "the proof's public key / ordinal differ"
		}
	case *protocol.RequestSignature:
		y := b.(*protocol.RequestSignature)
		if *x != *y {
			return "fields differ"
		}
	case *protocol.ReportSignature:
		y := b.(*protocol.ReportSignature)
		if x.SpaceID != y.SpaceID || x.Hash != y.Hash || !x.Signature.Equals(y.Signature) {
			return "fields differ"
		}
	}
	return ""
}

func zzGenMessage(t *sim.Tape) (protocol.Message, string) {
	var id uuid.UUID
	switch t.Choose("msg.id", 3) {
	case 0:
		id = uuid.Nil
	case 1:
		for i := range id {
			id[i] = 0xff
		}
	default:
		copy(id[:], sim.DetBytes("msgid", uint64(t.Choose("msg.idn", 1000)), 16))
	}
	var ch pocutil.Hash
	copy(ch[:], sim.DetBytes("msgch", uint64(t.Choose("msg.ch", 50)), 32))
	if t.Bool("msg.zeroch", 1, 8) {
		ch = pocutil.Hash{}
	}
	space := []string{"", "s", "space/with/slash", strings.Repeat("x", 300), "späce \"q\""}[t.Choose("msg.space", 5)]
	switch t.Choose("msg.type", 6) {
	case 0:
		tg := []*big.Int{big.NewInt(0), big.NewInt(1), big.NewInt(4096), new(big.Int).Lsh(big.NewInt(1), 255), new(big.Int).Sub(new(big.Int).Lsh(big.NewInt(1), 256), big.NewInt(1))}[t.Choose("msg.target", 5)]
		return &protocol.RequestQualities{TaskID: id, Challenge: ch, ParentTarget: tg, ParentSlot: uint64(t.Choose("msg.slot", 3)) * 0x7fffffffffffffff, Height: uint64(t.Choose("msg.h", 3)) * 1404801},
			fmt.Sprintf("RequestQualities(target=%v)", tg)
	case 1:
		n := t.Choose("msg.nq", 4)
		qs := make([]*protocol.Quality, 0, n)
		for i := 0; i < n; i++ {
			var plot [32]byte
			copy(plot[:], sim.DetBytes("plotid", uint64(i), 32))
			qs = append(qs, &protocol.Quality{WorkSpaceQuality: &engine_v2.WorkSpaceQuality{SpaceID: fmt.Sprintf("%s#%d", space, i), PublicKey: zzG1s[i%len(zzG1s)], PoolPublicKey: zzG1s[(i+2)%len(zzG1s)],
				Index: uint32(i) * 0x55555555, KSize: uint8(25 + 5*i), Quality: sim.DetBytes("q", uint64(i), []int{0, 1, 32, 64}[t.Choose("msg.qlen", 4)]), PlotID: plot}, Slot: uint64(i) + uint64(t.Choose("msg.qslot", 2))*1e15})
		}
		return &protocol.ReportQualities{TaskID: id, Qualities: qs}, fmt.Sprintf("ReportQualities(%d qualities)", n)
	case 2:
		return &protocol.RequestProof{TaskID: id, Height: uint64(t.Choose("msg.h", 3)) * 99, SpaceID: space, Challenge: ch, Index: uint32(t.Choose("msg.index", 3)) * 0x7fffffff}, "RequestProof"
	case 3:
		pos := &chiapos.ProofOfSpace{Challenge: ch, PoolPublicKey: zzG1s[1], PlotPublicKey: zzG1s[2], KSize: uint8(t.Choose("msg.k", 3) * 25), Proof: sim.DetBytes("pf", 1, []int{0, 8, 64, 4096}[t.Choose("msg.pflen", 4)])}
		return &protocol.ReportProof{TaskID: id, Proof: &protocol.Proof{SpaceID: space, Proof: pos, PublicKey: pos.PlotPublicKey, Ordinal: engine_v2.UnknownOrdinal}}, fmt.Sprintf("ReportProof(%d proof bytes)", len(pos.Proof))
	case 4:
		return &protocol.RequestSignature{TaskID: id, Height: 7, SpaceID: space, Hash: ch}, "RequestSignature"
	default:
		sig, _ := chiapos.Sign(chiapos.SchemeMPLAug, zzSKs[t.Choose("msg.sk", len(zzSKs))], ch[:])
		return &protocol.ReportSignature{TaskID: id, SpaceID: space, Hash: ch, Signature: sig}, "ReportSignature"
	}
}

// zzHostileFrame turns a valid message into what a byzantine peer may put on the stream.
// closes = the receiver is entitled to shut the connection down after this frame.
const (
	zzFrameValid   = iota // a well-formed message: must be delivered, equal
	zzFrameNoise          // no message, and no reason to close (keep-alive)
	zzFrameHostile        // malformed: the receiver may deliver an error and close; it must not panic, hang or allocate without bound
	zzFrameOversize       // a length prefix above the receive limit
)

func zzHostileFrame(t *sim.Tape, msg protocol.Message, desc string, limit int) (frame []byte, what string, kind int) {
	body, err := protocol.EncodeMessage(msg)
	if err != nil {
		body = []byte{0, 1, '{', '}'}
	}
	mk := func(b []byte) []byte {
		out := make([]byte, 4+len(b))
		binary.BigEndian.PutUint32(out, uint32(len(b)))
		copy(out[4:], b)
		return out
	}
	json := append([]byte{}, body[2:]...)
	applied := true
	rep := func(old, new string) []byte {
		applied = bytes.Contains(json, []byte(old))
		return append(append([]byte{}, body[:2]...), bytes.Replace(json, []byte(old), []byte(new), 1)...)
	}
	hostile := func(b []byte, what string) ([]byte, string, int) {
		if !applied {
			return mk(body), "valid " + desc, zzFrameValid
		}
		return mk(b), what, zzFrameHostile
	}
	switch t.Choose("byz.kind", 16) {
	case 0:
		return mk(body), "valid " + desc, zzFrameValid
	case 1:
		return hostile(rep(`"proof":{`, `"proof":null,"x":{`), "proof:null")
	case 2:
		return hostile(rep(`"qualities":[`, `"qualities":[null,`), "qualities:[null")
	case 3:
		return hostile(rep(`"task_id":"`, `"task_id":"zz`), "bad uuid")
	case 4:
		return mk(body[:2]), "empty body", zzFrameHostile
	case 5:
		return mk([]byte{0xff, 0xff, '{', '}'}), "unknown type", zzFrameHostile
	case 6:
		return mk(body[:1]), "one-byte frame", zzFrameHostile
	case 7:
		return mk(body)[:4+len(body)/2], "truncated frame (then whatever follows)", zzFrameHostile
	case 8:
		return []byte{0, 0, 0, 0}, "keep-alive (zero length)", zzFrameNoise
	case 9, 10:
		n := []int{limit + 1, 16 * limit, 1 << 30}[t.Choose("byz.oversize", 3)]
		hdr := make([]byte, 4)
		binary.BigEndian.PutUint32(hdr, uint32(n))
		return append(hdr, 1, 2, 3), fmt.Sprintf("%d bytes", n), zzFrameOversize
	case 11:
		return hostile(rep(`"public_key":"`, `"public_key":"00`), "bad group element")
	case 12:
		return hostile(rep(`"parent_target":"`, `"parent_target":"g`), "bad hex")
	case 13:
		return mk(bytes.Replace(body, []byte(`{`), []byte(`[`), 1)), "wrong json type", zzFrameHostile
	case 14:
		n := 1 + t.Choose("byz.garbage", 4096)
		return mk(append(append([]byte{}, body[:2]...), sim.DetBytes("garbage", uint64(n), n)...)), fmt.Sprintf("%d random bytes behind a valid type prefix", n), zzFrameHostile
	default:
		deep := bytes.Repeat([]byte{'['}, limit-2)
		return mk(append(append([]byte{}, body[:2]...), deep...)), fmt.Sprintf("%d bytes of nested arrays (largest admissible frame)", limit), zzFrameHostile
	}
}
