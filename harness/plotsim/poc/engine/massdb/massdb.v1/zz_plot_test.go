//go:build go1.23

package massdb_v1

// plot-sim (C07, C10): the real massdb.v1 plotter (CreateDB/OpenDB/Plot/StopPlot/Progress/Get)
// on the simulated disk at tiny bit lengths, with tape-chosen memory windows (hook H1 or the
// real memory-budget arithmetic with scaled-down constants), and - for C10 - graceful stops,
// process crashes and power losses at tape-chosen I/O operations, single or repeated.

import (
	"bytes"
	"encoding/binary"
	"fmt"
	"hash/fnv"
	"os"
	"path/filepath"
	"runtime"
	"strings"
	"sync"
	"sync/atomic"
	"testing"

	"github.com/massnetorg/mass-core/logging"

	"github.com/massnetorg/mass-core/poc"
	"github.com/massnetorg/mass-core/poc/pocutil"
	"github.com/massnetorg/mass-core/pocec"
	"massnet.org/mass/poc/engine/massdb"
	"verif/sim"
	"verif/sim/vos"
	"verif/sim/vsim"
)

func TestSim(t *testing.T) {
	dir := os.Getenv("VERIF_OUT")
	if dir == "" {
		dir = os.TempDir()
	}
	// the plotter logs progress per record at tiny bit lengths: keep only errors
	logging.Init(filepath.Join(dir, fmt.Sprintf("log-%d", os.Getpid())), "plot", "error", 0, true)
	vsim.E = zzEng
	sim.Main(map[string]sim.RunFunc{"C07": zzRunC07, "C10": zzRunC10})
}

type zzPlot struct {
	r       *sim.Run
	disk    *vos.Disk
	bl      int
	rs      int
	volume  int
	pk      *pocec.PublicKey
	pkHash  pocutil.Hash
	dir     string
	ordinal int64
	mdb     *MassDBV1
	// window policy
	useHook  bool
	tinyOK   bool
	stopRes  chan error
	nWindows int
}

func zzKey(idx int) *pocec.PublicKey {
	b := sim.DetBytes("plotkey", uint64(idx), 32)
	b[0] &= 0x7f
	b[31] |= 1
	_, pub := pocec.PrivKeyFromBytes(pocec.S256(), b)
	return pub
}

func zzNewPlot(r *sim.Run, disk *vos.Disk, bl, keyIdx int) *zzPlot {
	p := &zzPlot{r: r, disk: disk, bl: bl, rs: pocutil.RecordSize(bl), volume: 1 << uint(bl), pk: zzKey(keyIdx), dir: "/plots", ordinal: int64(keyIdx)}
	p.pkHash = pocutil.PubKeyHash(p.pk)
	return p
}

func (p *zzPlot) pathA() string { a, _ := getPath(p.dir, int(p.ordinal), p.pk, p.bl); return a }
func (p *zzPlot) pathB() string { _, b := getPath(p.dir, int(p.ordinal), p.pk, p.bl); return b }

// installWindows sets the memory knob for the plotting session that follows.
func (p *zzPlot) installWindows(full bool) {
	t := p.r.T
	rs := uint64(p.rs)
	VerifCacheSize = nil
	p.disk.AvailMem = 1 << 40
	if full {
		return
	}
	if p.useHook {
		VerifCacheSize = func(req uint64) (uint64, bool) {
			p.nWindows++
			// the smallest cache that is a window at all: two records in the first pass (the pass
			// rounds windows down to an even record count), one pair of pairs in the second.
			// (A one-record cache only arises in production as the remainder of an odd resume.)
			unit := 2 * rs
			inB := p.mdb != nil && p.mdb.HashMapA != nil && p.mdb.HashMapA.checkpoint >= p.mdb.HashMapA.volume
			if inB {
				unit = 4 * rs
			}
			if req < unit {
				return req, true
			}
			var size uint64
			opts := []uint64{unit, 2 * unit, 3 * unit, 5*unit + 1, 7 * unit, 16 * unit, req / 2, req, req/3 + 1, unit + rs - 1}
			if !p.tinyOK {
				opts = []uint64{req / 2, req, req/3 + 1, req/5 + unit, req / 7, req/4 + 1}
			}
			size = opts[t.Choose("win", len(opts))]
			if size < unit {
				size = unit
			}
			if size > req {
				size = req
			}
			return size, true
		}
		return
	}
	// the real arithmetic: available memory below the requirement, quantised by the (scaled-down) minimum
	total := uint64(p.volume) * rs * 4
	div := uint64([]int{1, 2, 3, 5, 8, 16}[t.Choose("mem.div", 6)])
	if !p.tinyOK && div > 8 {
		div = 8
	}
	p.disk.AvailMem = total/div + uint64(t.Choose("mem.odd", 4))
	if p.disk.AvailMem < 16 {
		p.disk.AvailMem = 16
	}
}

// ---------------------------------------------------------------------------------------------
// reference construction (independent of the plotter): candidates per y from the library's P

type zzRef struct {
	cand [][]uint32 // y -> all x with P(x) = y (x != 0)
}

func (p *zzPlot) buildRef() *zzRef {
	ref := &zzRef{cand: make([][]uint32, p.volume)}
	for x := 1; x < p.volume; x++ {
		y := pocutil.P(pocutil.PoCValue(x), p.bl, p.pkHash)
		ref.cand[y] = append(ref.cand[y], uint32(x))
	}
	return ref
}

func (p *zzPlot) val(b []byte) uint64 {
	var b8 [8]byte
	copy(b8[:], b[:p.rs])
	return binary.LittleEndian.Uint64(b8[:])
}

func (p *zzPlot) entryB(data []byte, z int) (x, xp uint64, ok bool) {
	off := LenMetaInfo + z*p.rs*2
	if off+2*p.rs > len(data) {
		return 0, 0, false
	}
	return p.val(data[off:]), p.val(data[off+p.rs:]), true
}

func (p *zzPlot) validPair(x, xp uint64, z int) bool {
	if x == 0 || xp == 0 || x >= uint64(p.volume) || xp >= uint64(p.volume) {
		return false
	}
	y := pocutil.P(pocutil.PoCValue(x), p.bl, p.pkHash)
	yp := pocutil.P(pocutil.PoCValue(xp), p.bl, p.pkHash)
	if y != pocutil.FlipValue(yp, p.bl) {
		return false
	}
	return int(pocutil.F(pocutil.PoCValue(x), pocutil.PoCValue(xp), p.bl, p.pkHash)) == z
}

// checkTable: C07's oracle on a B file image. upto = number of z slots to check for validity;
// complete = also demand completeness over all y.
func (p *zzPlot) checkTable(prop, where string, data []byte, ref *zzRef, complete bool) {
	r := p.r
	if len(data) < LenMetaInfo {
		r.Fail(prop+"/table-too-short/"+where, "B file has %d bytes", len(data))
		return
	}
	occupied := make([]bool, p.volume)
	for z := 0; z < p.volume; z++ {
		x, xp, ok := p.entryB(data, z)
		if !ok {
			if complete {
				// a slot beyond the end of the file reads as missing
				continue
			}
			continue
		}
		if x == 0 && xp == 0 {
			continue
		}
		if !p.validPair(x, xp, z) {
			r.Fail(prop+"/invalid-entry/"+where, "stored entry at z=%d is (x=%d, x'=%d): not a valid proof for this prefix (bl=%d)", z, x, xp, p.bl)
			return
		}
		occupied[z] = true
	}
	if !complete {
		return
	}
	half := p.volume / 2
	for y := 0; y < half; y++ {
		yp := int(pocutil.FlipValue(pocutil.PoCValue(y), p.bl))
		if len(ref.cand[y]) == 0 || len(ref.cand[yp]) == 0 {
			continue
		}
		found := false
		for _, x := range ref.cand[y] {
			for _, xp := range ref.cand[yp] {
				z := int(pocutil.F(pocutil.PoCValue(x), pocutil.PoCValue(xp), p.bl, p.pkHash))
				zp := int(pocutil.F(pocutil.PoCValue(xp), pocutil.PoCValue(x), p.bl, p.pkHash))
				if occupied[z] && occupied[zp] {
					found = true
				}
			}
		}
		if !found {
			x, xp := ref.cand[y][0], ref.cand[yp][0]
			z := int(pocutil.F(pocutil.PoCValue(x), pocutil.PoCValue(xp), p.bl, p.pkHash))
			r.Fail(prop+"/missing-proof/"+where, "the construction yields a proof for y=%d (e.g. x=%d, x'=%d, z=%d) but no candidate pair of this y has both its prefixes stored (bl=%d)", y, x, xp, z, p.bl)
			return
		}
	}
}

// checkA: every A slot below the recorded checkpoint holds a correct preimage (or is empty only
// when no non-zero preimage exists).
func (p *zzPlot) checkA(prop, where string, data []byte, ckpt int, ref *zzRef) {
	half := p.volume / 2
	if ckpt > p.volume {
		ckpt = p.volume
	}
	for s := 0; s < ckpt; s++ {
		y := s / 2
		if s%2 == 1 {
			y = int(pocutil.FlipValue(pocutil.PoCValue(s/2), p.bl))
		}
		_ = half
		off := LenMetaInfo + s*p.rs
		var x uint64
		if off+p.rs <= len(data) {
			x = p.val(data[off:])
		}
		if x == 0 {
			if len(ref.cand[y]) > 0 {
				p.r.Fail(prop+"/progress-ahead-of-data/"+where, "map A records checkpoint %d but slot %d (y=%d) is empty although x=%d maps to it (bl=%d)", ckpt, s, y, ref.cand[y][0], p.bl)
				return
			}
			continue
		}
		if x >= uint64(p.volume) || int(pocutil.P(pocutil.PoCValue(x), p.bl, p.pkHash)) != y {
			p.r.Fail(prop+"/progress-ahead-of-data/"+where, "map A records checkpoint %d but slot %d (y=%d) holds x=%d, which does not map to it", ckpt, s, y, x)
			return
		}
	}
}

func zzCkpt(data []byte) int {
	if len(data) < PosCheckpoint+8 {
		return 0
	}
	return int(binary.LittleEndian.Uint64(data[PosCheckpoint:]))
}

// ---------------------------------------------------------------------------------------------
// sessions

func (p *zzPlot) create() error {
	db, err := CreateDB(p.dir, p.ordinal, p.pk, p.bl)
	if err != nil {
		return err
	}
	p.mdb = db.(*MassDBV1)
	// the space was created long ago: its (empty) files are durable
	p.mdb.HashMapA.data.Sync()
	p.mdb.HashMapB.data.Sync()
	p.disk.SyncDir(p.dir)
	return nil
}

func (p *zzPlot) open() error {
	db, err := OpenDB(p.dir, p.ordinal, p.pk, p.bl)
	if err != nil {
		return err
	}
	p.mdb = db.(*MassDBV1)
	return nil
}

const (
	zzNoInterrupt = iota
	zzStop
	zzCrash
	zzPower
)

type zzOutcome struct {
	Err       error
	Died      bool
	Budget    bool
	Panic     *vsim.GoPanic
	Reached   bool
	OpsUsed   int
}

// zzYieldEngine lets a stop request arrive at the n-th synchronisation point of the plotter
// (channel checks, the writes of a flush) instead of at a disk operation: a request that comes in
// between two disk operations - after the quit check of a window scan, before its flush - is
// reachable only this way.
type zzYieldEngine struct {
	vsim.Plain
	mu    sync.Mutex // the plot goroutine and the goroutine that closes the stop channel both pass here
	n, at int
	fire  func()
	sites map[string]int
}

// zzEng is the one engine of this process: it is installed once, before any plot goroutine exists
// (stragglers of earlier sessions read the engine variable at any time), and armed per session.
var zzEng = &zzYieldEngine{}

func (e *zzYieldEngine) arm(at int, fire func()) {
	e.mu.Lock()
	e.n, e.at, e.fire, e.sites = 0, at, fire, map[string]int{}
	e.mu.Unlock()
}

func (e *zzYieldEngine) disarm() (n int, sites map[string]int) {
	e.mu.Lock()
	defer e.mu.Unlock()
	n, sites = e.n, e.sites
	e.at, e.fire, e.sites = 0, nil, nil
	return
}

func (e *zzYieldEngine) Yield(site string) {
	e.mu.Lock()
	e.n++
	if e.sites != nil {
		e.sites[site]++
	}
	var f func()
	if e.n == e.at && e.fire != nil {
		f = e.fire
		e.fire = nil
	}
	e.mu.Unlock()
	if f != nil {
		f()
	}
}

// session runs Plot() and interrupts it at the at-th disk operation from now (kind != none);
// a negative at means: a stop request at the (-at)-th synchronisation point of the plotter.
func (p *zzPlot) session(at int, kind int) zzOutcome {
	base := p.disk.NOps
	var out zzOutcome
	p.stopRes = nil
	if at < 0 && kind == zzStop {
		defer func() {
			n, sites := zzEng.disarm()
			for s, k := range sites {
				sim.Cur.Count("sync-point:"+s[strings.LastIndex(s, "/")+1:], k)
			}
			sim.Cur.Count("sync-points-per-stopped-session", n)
		}()
		fire := func() {
			mdb := p.mdb
			if atomic.LoadInt32(&mdb.plotting) != 1 {
				return // not plotting (yet, or any more): a stop request would be a no-op
			}
			out.Reached = true
			p.stopRes = mdb.StopPlot()
			for closed := false; !closed && atomic.LoadInt32(&mdb.plotting) == 2; {
				select {
				case <-mdb.stopPlotCh:
					closed = true
				default:
					runtime.Gosched()
				}
			}
		}
		zzEng.arm(-at, fire)
	}
	p.disk.Hook = func(op *vos.Op) vos.Action {
		if kind == zzNoInterrupt || out.Reached || op.N != base+at {
			return vos.None
		}
		out.Reached = true
		switch kind {
		case zzStop:
			// a stop request arrives exactly now (deterministically: wait until it has been signalled)
			mdb := p.mdb
			p.stopRes = mdb.StopPlot()
			for closed := false; !closed; {
				select {
				case <-mdb.stopPlotCh:
					closed = true
				default:
					runtime.Gosched()
				}
			}
			return vos.None
		default:
			return vos.CrashBefore
		}
	}
	res := p.mdb.Plot()
	out.Err = <-res
	p.disk.Hook = nil
	out.OpsUsed = p.disk.NOps - base
	for _, gp := range vsim.TakePanics() {
		gp := gp
		switch gp.Val.(type) {
		case vos.CrashSignal:
			out.Died = true
		case sim.BudgetExceeded:
			out.Budget = true
		default:
			out.Panic = &gp
		}
	}
	if p.stopRes != nil && !out.Died {
		<-p.stopRes
	}
	return out
}

func (p *zzPlot) fileOrNil(path string) []byte {
	b, _ := p.disk.Content(path)
	return b
}

func zzHashBytes(b []byte) string {
	h := fnv.New64a()
	h.Write(b)
	return fmt.Sprintf("%016x", h.Sum64())
}

// ---------------------------------------------------------------------------------------------
// C07

func zzRunC07(r *sim.Run) {
	t := r.T
	disk := vos.New()
	vos.Cur = disk
	// (the engine variable is set once in TestSim)
	vsim.TakePanics()
	r.StepBudget = 3000000
	disk.StepFn = r.Step
	bl := []int{7, 8, 9, 10, 12}[t.Weighted("bl", []int{4, 6, 2, 4, 2})] // below 7 the plotter's own progress logging divides by zero
	if r.Config == "bl24" {
		bl = 24
	}
	p := zzNewPlot(r, disk, bl, t.Choose("key", 64))
	p.useHook = t.Bool("usehook", 2, 3)
	p.tinyOK = bl <= 8
	if err := p.create(); err != nil {
		sim.EngineError("create: %v", err)
	}
	p.installWindows(r.Config == "bl24")
	out := p.session(0, zzNoInterrupt)
	r.Ops += 3
	r.Event("plot bl=%d key#%d hook=%v windows=%d ops=%d -> err=%v", bl, p.ordinal, p.useHook, p.nWindows, out.OpsUsed, out.Err)
	r.Count("windows", p.nWindows)
	if p.nWindows > 2 || (!p.useHook && out.OpsUsed > 40) {
		r.Probe("multi-window-plot")
	}
	if out.Budget {
		r.Fail("C07/no-termination/plot", "plotting bl=%d did not finish within the step budget", bl)
		return
	}
	if out.Panic != nil {
		r.Fail("C07/panic/"+sim.PanicSite(out.Panic.Stack), "plot goroutine panicked: %v", out.Panic.Val)
		return
	}
	if out.Err != nil {
		r.Fail("C07/plot-error/plot", "uninterrupted plot failed: %v", out.Err)
		return
	}
	pre, plotted, prog := p.mdb.Progress()
	if !pre || !plotted || prog != 100 {
		r.Fail("C07/not-complete/progress", "plot returned without error but Progress() = (%v,%v,%v)", pre, plotted, prog)
		return
	}
	dataB := p.fileOrNil(p.pathB())
	if bl <= 12 {
		ref := p.buildRef()
		p.checkTable("C07", "completed", dataB, ref, true)
	}
	if _, ok := disk.Content(p.pathA()); ok {
		r.Fail("C07/map-a-left/completed", "map A still exists after completion")
	}
	// what is served: through the plot DB's own read path, on the running and on a reopened instance
	p.mdb.Close()
	if err := p.open(); err != nil {
		r.Fail("C07/reopen-fails/completed", "OpenDB after completion: %v", err)
		return
	}
	if !p.mdb.Ready() {
		r.Fail("C07/not-ready/reopened", "reopened space is not ready")
	}
	n := 24
	for i := 0; i < n && !r.Failed(); i++ {
		z := t.Choose("probe.z", p.volume)
		x, xp, err := p.mdb.Get(pocutil.PoCValue(z))
		if err != nil {
			r.Fail("C07/get-error/reopened", "Get(%d): %v", z, err)
			break
		}
		fx, fxp, _ := p.entryB(dataB, z)
		if uint64(x) != fx || uint64(xp) != fxp {
			r.Fail("C07/get-mismatch/reopened", "Get(%d) = (%d,%d) but the file holds (%d,%d)", z, x, xp, fx, fxp)
		}
		if bl >= 24 && (x != 0 || xp != 0) {
			var ch pocutil.Hash
			binary.LittleEndian.PutUint64(ch[:8], uint64(z))
			proof, err := p.mdb.GetProof(ch, false)
			if err != nil {
				r.Fail("C07/served-proof-rejected/reopened", "GetProof for stored z=%d: %v", z, err)
			} else if err := poc.VerifyProof(proof, p.pkHash, ch, false); err != nil {
				r.Fail("C07/served-proof-invalid/reopened", "proof served for z=%d does not verify: %v", z, err)
			}
		}
	}
	p.mdb.Close()
	r.State(zzHash(fmt.Sprint(bl, p.nWindows)))
}

func zzHash(s string) uint64 {
	h := fnv.New64a()
	h.Write([]byte(s))
	return h.Sum64()
}

// ---------------------------------------------------------------------------------------------
// C10

func zzRunC10(r *sim.Run) {
	t := r.T
	// (the engine variable is set once in TestSim)
	vsim.TakePanics()
	bl := []int{7, 8, 9, 10}[t.Weighted("bl", []int{5, 5, 1, 2})]
	keyIdx := t.Choose("key", 64)

	// reference: the same code, uninterrupted, one window
	refDisk := vos.New()
	vos.Cur = refDisk
	r.StepBudget = 0
	rp := zzNewPlot(r, refDisk, bl, keyIdx)
	if err := rp.create(); err != nil {
		sim.EngineError("reference create: %v", err)
	}
	rp.installWindows(true)
	ro := rp.session(0, zzNoInterrupt)
	if ro.Err != nil || ro.Panic != nil {
		sim.EngineError("reference plot failed: %v %v", ro.Err, ro.Panic)
	}
	refB := append([]byte{}, rp.fileOrNil(rp.pathB())...)
	rp.mdb.Close()
	ref := rp.buildRef()
	refOps := ro.OpsUsed

	disk := vos.New()
	vos.Cur = disk
	disk.DirVolatile = t.Bool("dirvolatile", 1, 3)
	disk.StepFn = r.Step
	p := zzNewPlot(r, disk, bl, keyIdx)
	p.useHook = t.Bool("usehook", 2, 3)
	p.tinyOK = bl <= 8
	if err := p.create(); err != nil {
		sim.EngineError("create: %v", err)
	}
	nInt := 1 + t.Weighted("ninterrupt", []int{6, 3, 2, 1})
	// an honest plot needs at most ~8 disk operations per window and there are at most `volume` windows
	budgetPerSession := 4000
	if p.tinyOK {
		budgetPerSession = 24*p.volume + 2000
	}
	kinds := []int{zzStop, zzCrash, zzPower}
	if r.Config == "graceful" {
		kinds = []int{zzStop}
	}
	for i := 0; ; i++ {
		r.Ops++
		kind := zzNoInterrupt
		at := 0
		if i < nInt {
			kind = kinds[t.Choose("kind", len(kinds))]
			// where: early ops are dense in checkpoint writes; spread over a multiple of the reference length
			span := refOps * []int{1, 2, 6}[t.Choose("span", 3)]
			if span < 8 {
				span = 8
			}
			at = 1 + t.Choose("at", span)
			if kind == zzStop && t.Bool("stop.at-sync-point", 1, 3) {
				at = -(1 + t.Choose("at.sync", 40))
			}
		}
		p.nWindows = 0
		p.installWindows(false)
		r.Steps, r.StepBudget = 0, budgetPerSession
		out := p.session(at, kind)
		ckA, ckB := -1, -1
		r.Event("session %d bl=%d hook=%v interrupt=%s at=%d reached=%v windows=%d ops=%d -> err=%v died=%v", i, bl, p.useHook,
			[...]string{"none", "stop", "crash", "power-loss"}[kind], at, out.Reached, p.nWindows, out.OpsUsed, out.Err, out.Died)
		if out.Budget {
			r.Fail("C10/no-progress/"+zzIf(i == 0, "first-plot", "resumed-plot"), "plotting (session %d, bl=%d) did not finish within %d disk operations although no interruption is pending", i, bl, budgetPerSession)
			return
		}
		if out.Panic != nil {
			r.Fail("C10/panic/"+sim.PanicSite(out.Panic.Stack), "plot goroutine panicked: %v", out.Panic.Val)
			return
		}
		if out.Reached {
			r.Fault([...]string{"none", "graceful-stop", "process-crash", "power-loss"}[kind])
		}
		if out.Err != nil {
			r.Fail("C10/plot-error/session", "Plot returned %v", out.Err)
			return
		}
		// shut this incarnation down
		switch {
		case out.Died && kind == zzPower:
			disk.PowerLoss(t.Choose)
		case out.Died:
			disk.Crash()
		default:
			p.mdb.Close()
		}
		p.mdb = nil
		// reopen the space
		err := p.open()
		if err == massdb.ErrDBDoesNotExist && kind == zzPower {
			// the files themselves never became durable: the space starts over
			if err = p.create(); err != nil {
				r.Fail("C10/recreate-fails/reopen", "space vanished in the power loss and cannot be created again: %v", err)
				return
			}
			r.Probe("space-recreated")
		} else if err != nil {
			r.Fail("C10/reopen-fails/"+[...]string{"none", "stop", "crash", "power-loss"}[kind], "OpenDB after the interruption: %v", err)
			return
		}
		dataA, dataB := p.fileOrNil(p.pathA()), p.fileOrNil(p.pathB())
		ckB = zzCkpt(dataB)
		pre, plotted, prog := p.mdb.Progress()
		if p.mdb.HashMapA != nil {
			ckA = zzCkpt(dataA)
			// (i) recorded progress never ahead of the data
			p.checkA("C10", "after-"+[...]string{"completion", "stop", "crash", "power-loss"}[kind], dataA, ckA, ref)
		}
		if ckB > 0 && !r.Failed() {
			lim := ckB * 2
			if lim > p.volume {
				lim = p.volume
			}
			for z := 0; z < lim; z++ {
				off := LenMetaInfo + z*p.rs*2
				var got, want []byte
				if off+2*p.rs <= len(dataB) {
					got = dataB[off : off+2*p.rs]
				}
				if off+2*p.rs <= len(refB) {
					want = refB[off : off+2*p.rs]
				}
				if !bytes.Equal(got, want) && !(len(got) == 0 && isZero(want)) {
					r.Fail("C10/progress-ahead-of-data/B-after-"+[...]string{"completion", "stop", "crash", "power-loss"}[kind],
						"map B records checkpoint %d but entry z=%d is %x, uninterrupted plot has %x", ckB, z, got, want)
					break
				}
			}
		}
		r.Event("reopened: ckptA=%d ckptB=%d progress=(%v,%v,%.1f)", ckA, ckB, pre, plotted, prog)
		r.State(zzHash(fmt.Sprint(bl, ckA, ckB, plotted)))
		if r.Failed() {
			return
		}
		if plotted {
			// (iii) never falsely complete: equal to the uninterrupted table
			if !zzSameTable(dataB, refB, p) {
				d := zzFirstDiff(dataB, refB, p)
				r.Fail("C10/falsely-complete/final", "the space reports itself plotted but its table differs from an uninterrupted plot: %s", d)
				return
			}
			p.checkTable("C10", "final", dataB, ref, true)
			if !out.Reached || kind == zzStop {
				if _, ok := disk.Content(p.pathA()); ok && kind != zzPower && !disk.DirVolatile {
					// map A is removed when (and only when) B is final
					r.Probe("map-a-present-after-completion")
				}
			}
			p.mdb.Close()
			return
		}
		if i > nInt+3 {
			r.Fail("C10/no-progress/resumed-plot", "an uninterrupted session returned without error but the space is still not plotted (ckptA=%d ckptB=%d)", ckA, ckB)
			return
		}
	}
}

func isZero(b []byte) bool {
	for _, c := range b {
		if c != 0 {
			return false
		}
	}
	return true
}

func zzIf(c bool, a, b string) string {
	if c {
		return a
	}
	return b
}

func zzSameTable(a, b []byte, p *zzPlot) bool {
	n := LenMetaInfo + p.volume*p.rs*2
	pad := func(x []byte) []byte {
		if len(x) >= n {
			return x[LenMetaInfo:n]
		}
		y := make([]byte, n)
		copy(y, x)
		return y[LenMetaInfo:]
	}
	return bytes.Equal(pad(a), pad(b))
}

func zzFirstDiff(a, b []byte, p *zzPlot) string {
	for z := 0; z < p.volume; z++ {
		x1, xp1, _ := p.entryB(a, z)
		x2, xp2, _ := p.entryB(b, z)
		if x1 != x2 || xp1 != xp2 {
			return fmt.Sprintf("z=%d holds (%d,%d), uninterrupted (%d,%d) (bl=%d)", z, x1, xp1, x2, xp2, p.bl)
		}
	}
	return "no difference in the data region"
}
