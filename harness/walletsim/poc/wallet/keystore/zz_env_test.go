//go:build go1.23

package keystore

// wallet-sim environment: the real keystore manager over faultdb over the real ldb store over
// goleveldb over the simulated disk. This file owns every seam: disk, crypto randomness,
// scrypt cost knob, log capture, FATAL-exit interception, guarded calls.

import (
	"crypto/rand"
	"fmt"
	"os"
	"path/filepath"
	"runtime"
	"sync"

	"github.com/massnetorg/mass-core/logging"
	"github.com/sirupsen/logrus"
	"massnet.org/mass/config"
	walletdb "massnet.org/mass/poc/wallet/db"
	_ "massnet.org/mass/poc/wallet/db/ldb"
	"massnet.org/mass/poc/wallet/keystore/snacl"
	"massnet.org/mass/zzverif/faultdb"
	"verif/sim"
	"verif/sim/vos"
)

var (
	zzOnce    sync.Once
	zzLogDir  string
	zzLogPath string
	zzLogOff  int64
	// zzFatal is set by the logrus exit handler: the repository called logging.CPrint(FATAL),
	// which in production is os.Exit(1). The simulator treats it as process death at that point.
	zzFatal bool
)

func zzInitProcess() {
	zzOnce.Do(func() {
		dir := os.Getenv("VERIF_OUT")
		if dir == "" {
			dir = os.TempDir()
		}
		zzLogDir = filepath.Join(dir, fmt.Sprintf("log-%d", os.Getpid()))
		os.MkdirAll(zzLogDir, 0o700)
		logging.Init(zzLogDir, "sim", "debug", 0, true)
		zzLogPath = filepath.Join(zzLogDir, "sim.log")
		logrus.RegisterExitHandler(func() {
			zzFatal = true
			runtime.Goexit() // end the calling (operation) goroutine; deferred unlocks still run
		})
	})
}

// zzLogTail returns what the node logged since the previous call (real file written by
// mass-core's logging package; never part of the event hash).
func zzLogTail() []byte {
	f, err := os.Open(zzLogPath)
	if err != nil {
		return nil
	}
	defer f.Close()
	st, err := f.Stat()
	if err != nil || st.Size() <= zzLogOff {
		if err == nil && st.Size() < zzLogOff {
			zzLogOff = 0
		}
		return nil
	}
	buf := make([]byte, st.Size()-zzLogOff)
	n, _ := f.ReadAt(buf, zzLogOff)
	zzLogOff += int64(n)
	return buf[:n]
}

// zzWallet is one simulated wallet process: manager + fault layer + store handle.
type zzWallet struct {
	name string
	path string
	kmc  *KeystoreManagerForPoC
	fdb  *faultdb.DB
	raw  walletdb.DB
}

type zzEnv struct {
	r    *sim.Run
	disk *vos.Disk
	w    [2]*zzWallet
}

// zzParams are the per-run knobs; drawn once so that a second pass (C12) can rebuild the
// identical environment.
type zzParams struct {
	CryptoSeed uint64
	ScryptN    int
	WB, BC     int
}

var zzLastParams zzParams

func zzNewEnv(r *sim.Run) *zzEnv {
	t := r.T
	p := zzParams{
		CryptoSeed: uint64(t.Choose("cryptoseed", 1<<16)),
		ScryptN:    []int{2, 16, 64}[t.Choose("knob.scryptN", 3)],
		WB:         []int{64 << 10, 256 << 10, 1 << 20}[t.Choose("knob.wb", 3)],
		BC:         []int{8 << 10, 1 << 20}[t.Choose("knob.bc", 2)],
	}
	zzLastParams = p
	return zzNewEnvP(r, p)
}

func zzNewEnvP(r *sim.Run, p zzParams) *zzEnv {
	zzInitProcess()
	disk := vos.New()
	vos.Cur = disk
	disk.StepFn = r.Step
	r.StepBudget = 4000000
	det := sim.NewDetReader(sim.Mix(r.Seed, p.CryptoSeed))
	rand.Reader = det
	snacl.ZZSetPRNG(det)
	DefaultScryptOptions = ScryptOptions{N: p.ScryptN, R: 8, P: 1}
	vos.Knobs.WriteBuffer = p.WB
	vos.Knobs.BlockCache = p.BC
	zzFatal = false
	zzLogTail() // discard what earlier runs logged
	e := &zzEnv{r: r, disk: disk}
	e.w[0] = &zzWallet{name: "W1", path: "/w1/keystore"}
	e.w[1] = &zzWallet{name: "W2", path: "/w2/keystore"}
	return e
}

func (e *zzEnv) fastScrypt() *ScryptOptions {
	o := DefaultScryptOptions
	return &o
}

// open (re)starts wallet w with the given public passphrase, the way NewPoCWallet does:
// create the store if its directory does not exist, else open it.
func (e *zzEnv) open(w *zzWallet, pubPass []byte) error {
	var store walletdb.DB
	var err error
	if _, serr := e.disk.Stat(w.path); serr == nil {
		store, err = walletdb.OpenDB("leveldb", w.path)
	} else {
		store, err = walletdb.CreateDB("leveldb", w.path)
	}
	if err != nil {
		return fmt.Errorf("store: %w", err)
	}
	fdb := faultdb.New(store)
	var kmc *KeystoreManagerForPoC
	o := e.call(func() {
		kmc, err = NewKeystoreManagerForPoC(fdb, append([]byte{}, pubPass...), config.ChainParams)
	})
	if o.Panicked {
		store.Close()
		return fmt.Errorf("panic in NewKeystoreManagerForPoC: %v", o.PanicVal)
	}
	if o.Crashed {
		store.Close()
		return fmt.Errorf("process exit in NewKeystoreManagerForPoC: %s", o.CrashAt)
	}
	if err != nil {
		store.Close()
		return err
	}
	w.kmc, w.fdb, w.raw = kmc, fdb, store
	return nil
}

// closeWallet is a graceful shutdown.
func (e *zzEnv) closeWallet(w *zzWallet) error {
	if w.raw == nil {
		return nil
	}
	err := w.raw.Close()
	w.kmc, w.fdb, w.raw = nil, nil, nil
	return err
}

// kill is process death of both wallets' process: issued writes survive, handles die.
func (e *zzEnv) kill(powerLoss bool) {
	if powerLoss {
		e.disk.PowerLoss(e.r.T.Choose)
	} else {
		e.disk.Crash()
	}
	for _, w := range e.w {
		if w.raw != nil {
			w.raw.Close() // reap the dead process's goroutines; its storage is fenced
		}
		w.kmc, w.fdb, w.raw = nil, nil, nil
	}
}

func (e *zzEnv) shutdown() {
	for _, w := range e.w {
		e.closeWallet(w)
	}
}

// call runs f (a call into repository code) on its own goroutine, so that a FATAL exit
// (runtime.Goexit from the exit handler) or a sim.Crash panic ends only that goroutine.
func (e *zzEnv) call(f func()) sim.Outcome {
	var o sim.Outcome
	done := make(chan struct{})
	finished := false
	zzFatal = false
	go func() {
		defer close(done)
		o = e.r.Guard(func() {
			f()
			finished = true
		})
	}()
	<-done
	if !finished && !o.Panicked && !o.Crashed && !o.Budget {
		// the goroutine ended without returning and without panicking: Goexit from the FATAL handler
		o.Crashed = true
		o.CrashAt = "FATAL log exit"
	}
	if zzFatal && !o.Crashed {
		o.Crashed = true
		o.CrashAt = "FATAL log exit"
	}
	return o
}
