//go:build go1.23

package keystore

// C04: taint scan. The harness knows (or recovers with the passphrases it holds) every secret of
// the run and searches for it, in several encodings, in every byte of the simulated disk, in the
// logical key/value dump (table blocks are compressed), in every export and in the node's log.

import (
	"bytes"
	"encoding/base64"
	"encoding/hex"
	"strings"

	"github.com/massnetorg/mass-core/massutil/base58"
	"massnet.org/mass/config"
	walletdb "massnet.org/mass/poc/wallet/db"
	ldbpkg "massnet.org/mass/poc/wallet/db/ldb"
	"massnet.org/mass/poc/wallet/keystore/hdkeychain"
	"massnet.org/mass/poc/wallet/keystore/snacl"
)

type zzNeedle struct {
	b    []byte
	what string
}

type zzNeedles struct {
	items []zzNeedle
	have  map[string]bool
	nscan int
}

func zzNewNeedles() *zzNeedles { return &zzNeedles{have: map[string]bool{}} }

func (n *zzNeedles) add(b []byte, what string) {
	if len(b) < 8 {
		return
	}
	k := what + "\x00" + string(b)
	if n.have[k] {
		return
	}
	n.have[k] = true
	n.items = append(n.items, zzNeedle{append([]byte{}, b...), what})
}

// addSecret registers raw secret bytes in raw, hex (both cases), base64 and base58 form.
func (n *zzNeedles) addSecret(raw []byte, what string) {
	if len(raw) < 8 {
		return
	}
	n.add(raw, what)
	h := hex.EncodeToString(raw)
	n.add([]byte(h), what+"(hex)")
	n.add([]byte(strings.ToUpper(h)), what+"(HEX)")
	n.add([]byte(base64.StdEncoding.EncodeToString(raw)), what+"(base64)")
	n.add([]byte(base58.Encode(raw)), what+"(base58)")
}

func (n *zzNeedles) addPass(p []byte, what string) {
	if len(p) < 10 {
		return
	}
	n.addSecret(p, what)
}

func (n *zzNeedles) addExtKey(k *hdkeychain.ExtendedKey, what string) {
	if k == nil || !k.IsPrivate() {
		return
	}
	n.add([]byte(k.String()), what+"(xprv)")
	if raw, err := k.PrivKey(); err == nil {
		n.addSecret(raw, what+"(scalar)")
	}
}

func (n *zzNeedles) addKeystore(x *zzExec, w *zzWallet, id string, seed []byte) {
	if len(seed) > 0 {
		n.addSecret(seed, "seed")
	}
	n.refresh(x)
}

func zzRawGet(store walletdb.DB, id string, keys ...[]byte) (map[string][]byte, error) {
	out := map[string][]byte{}
	err := walletdb.View(store, func(tx walletdb.ReadTransaction) error {
		km := tx.TopLevelBucket(ksMgrBucket)
		if km == nil {
			return ErrBucketNotFound
		}
		b := km.Bucket(id)
		if b == nil {
			return ErrBucketNotFound
		}
		for _, k := range keys {
			v, err := b.Get(k)
			if err != nil {
				return err
			}
			out[string(k)] = append([]byte{}, v...)
		}
		return nil
	})
	return out, err
}

// refresh recovers, with the passphrases the harness holds, every secret of every live keystore
// from the stores and registers it; it also evaluates the cross-hierarchy oracle.
func (n *zzNeedles) refresh(x *zzExec) {
	for i, w := range x.e.w {
		if w.raw == nil {
			continue
		}
		m := x.m[i]
		for id, mk := range m.KS {
			vals, err := zzRawGet(w.raw, id, masterPrivKeyName, masterPubKeyName, cryptoPrivKeyName, cryptoPubKeyName, masterHDPrivName)
			if err != nil {
				continue
			}
			var skPub, skPriv snacl.SecretKey
			var ckPub, ckPriv cryptoKey
			// nothing private may open under a key anybody knows (all zero: a wiped key object)
			var zeroKey snacl.CryptoKey
			for _, blob := range [][]byte{vals[string(masterHDPrivName)], vals[string(cryptoPrivKeyName)]} {
				if len(blob) == 0 {
					continue
				}
				if _, err := zeroKey.Decrypt(blob); err == nil {
					x.fail("C04", "private-blob-opens-under-zero-key/store", "a private blob of keystore %s decrypts under the all-zero key: its secret is recoverable without any passphrase", zzShort(id))
				}
			}
			pubPass, privPass := append([]byte{}, m.PubPass...), append([]byte{}, m.PrivPass...)
			if skPub.Unmarshal(vals[string(masterPubKeyName)]) == nil && skPub.DeriveKey(&pubPass) == nil {
				n.addSecret(skPub.Key[:], "master-key-pub")
				if pt, err := skPub.Decrypt(vals[string(cryptoPubKeyName)]); err == nil {
					ckPub.CopyBytes(pt)
					n.addSecret(pt, "crypto-key-pub")
					// cross-hierarchy: nothing private may open under the public hierarchy
					for _, blob := range [][]byte{vals[string(masterHDPrivName)], vals[string(cryptoPrivKeyName)]} {
						if len(blob) == 0 {
							continue
						}
						if _, err := ckPub.Decrypt(blob); err == nil {
							x.fail("C04", "private-blob-opens-under-public-key/store", "a private blob of keystore %s decrypts under the public crypto key", zzShort(id))
						}
						if _, err := skPub.Decrypt(blob); err == nil {
							x.fail("C04", "private-blob-opens-under-public-passphrase/store", "a private blob of keystore %s decrypts under the public-passphrase master key", zzShort(id))
						}
					}
				}
			}
			if skPriv.Unmarshal(vals[string(masterPrivKeyName)]) == nil && skPriv.DeriveKey(&privPass) == nil {
				n.addSecret(skPriv.Key[:], "master-key-priv")
				if pt, err := skPriv.Decrypt(vals[string(cryptoPrivKeyName)]); err == nil {
					ckPriv.CopyBytes(pt)
					n.addSecret(pt, "crypto-key-priv")
					if ms, err := ckPriv.Decrypt(vals[string(masterHDPrivName)]); err == nil {
						n.add(ms, "master-hd-key(xprv)")
						if root, err := hdkeychain.NewKeyFromString(string(ms)); err == nil {
							n.addDerived(root, mk)
						}
					}
				}
			}
		}
	}
}

func (n *zzNeedles) addDerived(root *hdkeychain.ExtendedKey, mk *zzMK) {
	n.addExtKey(root, "master-hd-key")
	scope := Net2KeyScope[config.ChainParams.HDCoinType]
	purpose, err := root.Child(scope.Purpose + hdkeychain.HardenedKeyStart)
	if err != nil {
		return
	}
	n.addExtKey(purpose, "purpose-key")
	coin, err := purpose.Child(scope.Coin + hdkeychain.HardenedKeyStart)
	if err != nil {
		return
	}
	n.addExtKey(coin, "coin-key")
	acct, err := coin.Child(0 + hdkeychain.HardenedKeyStart)
	if err != nil {
		return
	}
	n.addExtKey(acct, "account-key")
	for br := uint32(0); br < 2; br++ {
		bk, err := acct.Child(br)
		if err != nil {
			continue
		}
		n.addExtKey(bk, "branch-key")
		next := mk.NextExt
		if br == 1 {
			next = mk.NextInt
		}
		for i := uint32(0); i < next && i < 16; i++ {
			ck, err := bk.Child(i)
			if err != nil {
				continue
			}
			n.addExtKey(ck, "child-key")
		}
	}
}

func (n *zzNeedles) scan(x *zzExec, class string, hay []byte, where string) {
	if len(hay) == 0 {
		return
	}
	n.nscan++
	for _, it := range n.items {
		if bytes.Contains(hay, it.b) {
			what := it.what
			if i := strings.IndexByte(what, '('); i > 0 {
				what = what[:i]
			}
			x.fail("C04", "secret-in-"+class+"/"+what, "%s found in clear in %s (after %s)", it.what, where, x.opName)
		}
	}
}

func (n *zzNeedles) scanAll(x *zzExec, op zzOp) {
	// keep the child-key needles current (new indices)
	if op.Kind == oNextAddr || op.Kind == oGenPub || op.Kind == oRestart {
		n.refresh(x)
	}
	// the cross-wallet pass needle: public passphrases
	for _, p := range x.e.disk.Paths() {
		if b, ok := x.e.disk.Content(p); ok {
			n.scan(x, "store-file", b, "file "+p)
		}
	}
	for _, w := range x.e.w {
		if w.raw == nil {
			continue
		}
		if l, ok := w.raw.(*ldbpkg.LevelDB); ok {
			it := l.LDb.NewIterator(nil, nil)
			var all []byte
			for it.Next() {
				all = append(all, it.Key()...)
				all = append(all, 0)
				all = append(all, it.Value()...)
				all = append(all, 0)
			}
			it.Release()
			n.scan(x, "store-content", all, "key/value content of "+w.name)
		}
	}
	if tail := zzLogTail(); len(tail) > 0 {
		n.scan(x, "log", tail, "log output")
		x.r.Count("log-bytes-scanned", len(tail))
	}
	x.r.Count("needles", len(n.items))
}
