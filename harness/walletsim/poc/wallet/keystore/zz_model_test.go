//go:build go1.23

package keystore

// M-wallet: the reference model of one wallet (what has been acknowledged), and the observable
// snapshot taken from the running instance. The model never looks at implementation state; the
// snapshot only reads (in-package) what the public API also exposes, plus the next-index counters.

import (
	"bytes"
	"encoding/hex"
	"fmt"
	"sort"
	"strings"
)

type zzKey struct {
	KS     string
	Branch uint32
	Index  uint32
	Pub    string // hex of the compressed public key
	Addr   string
}

type zzMK struct {
	ID      string
	Remark  string
	SeedIdx int
	Keys    map[string]zzKey // by "branch/index"
	NextExt uint32
	NextInt uint32
	// Tainted: imported from a tampered file the importer accepted (known finding);
	// Regressed: imported from an export older than the latest issuance
	Tainted   bool
	Regressed bool
}

func (k *zzMK) clone() *zzMK {
	n := *k
	n.Keys = map[string]zzKey{}
	for a, b := range k.Keys {
		n.Keys[a] = b
	}
	return &n
}

type zzMW struct {
	PubPass  []byte
	PrivPass []byte // meaningful only while at least one keystore exists
	OldPriv  [][]byte
	OldPub   [][]byte
	Locked   bool
	KS       map[string]*zzMK
	Order    []string // live keystore ids in creation order (slots)
	Issued   []zzKey  // every key ever acknowledged by this wallet, in order
	Plot     []zzKey  // keys returned by GenerateNewPublicKey
}

func zzNewMW(pub []byte) *zzMW {
	return &zzMW{PubPass: pub, Locked: true, KS: map[string]*zzMK{}}
}

func (m *zzMW) clone() *zzMW {
	n := *m
	n.KS = map[string]*zzMK{}
	for k, v := range m.KS {
		n.KS[k] = v.clone()
	}
	n.Order = append([]string{}, m.Order...)
	n.Issued = append([]zzKey{}, m.Issued...)
	n.Plot = append([]zzKey{}, m.Plot...)
	n.OldPriv = append([][]byte{}, m.OldPriv...)
	n.OldPub = append([][]byte{}, m.OldPub...)
	return &n
}

func (m *zzMW) slot(i int) (string, bool) {
	if i >= 0 && i < len(m.Order) {
		return m.Order[i], true
	}
	return "ac1qqqqqqqqqqqqqqqqqqqqqqqqqqqqqqqqqqqqqqqq", false
}

func (m *zzMW) remove(id string) {
	delete(m.KS, id)
	for i, x := range m.Order {
		if x == id {
			m.Order = append(m.Order[:i], m.Order[i+1:]...)
			break
		}
	}
}

// liveKey finds a public key among the keys of the keystores the wallet currently holds.
func (m *zzMW) liveKey(pub string) (zzKey, bool) {
	for _, k := range m.KS {
		for _, key := range k.Keys {
			if key.Pub == pub {
				return key, true
			}
		}
	}
	return zzKey{}, false
}

func (m *zzMW) isCurPriv(p []byte) bool {
	return len(m.KS) > 0 && bytes.Equal(p, m.PrivPass)
}

// ---------------------------------------------------------------------------------------------
// observable snapshot

type zzASnap struct {
	Addr    string
	Branch  uint32
	Index   uint32
	Pub     string
	HasPriv bool
}

type zzKSnap struct {
	ID      string
	Remark  string
	Addrs   []zzASnap
	NextExt uint32
	NextInt uint32
	Unlocked bool
}

type zzSnap struct {
	Locked bool
	KS     []zzKSnap
}

func zzTakeSnap(kmc *KeystoreManagerForPoC) *zzSnap {
	s := &zzSnap{Locked: kmc.IsLocked()}
	ams := kmc.GetManagedAddrManager()
	names := kmc.ListKeystoreNames()
	sort.Strings(names)
	byName := map[string]*AddrManager{}
	for _, am := range ams {
		byName[am.Name()] = am
	}
	for _, n := range names {
		am := byName[n]
		if am == nil {
			s.KS = append(s.KS, zzKSnap{ID: n, Remark: "<listed but no manager>"})
			continue
		}
		ks := zzKSnap{ID: n, Remark: am.Remarks(), NextExt: am.branchInfo.nextExternalIndex, NextInt: am.branchInfo.nextInternalIndex, Unlocked: am.unlocked}
		for _, ma := range am.ManagedAddresses() {
			ks.Addrs = append(ks.Addrs, zzASnap{Addr: ma.String(), Branch: ma.derivationPath.Branch, Index: ma.derivationPath.Index,
				Pub: hex.EncodeToString(ma.PubKey().SerializeCompressed()), HasPriv: ma.PrivKey() != nil})
		}
		sort.Slice(ks.Addrs, func(i, j int) bool {
			a, b := ks.Addrs[i], ks.Addrs[j]
			if a.Branch != b.Branch {
				return a.Branch < b.Branch
			}
			if a.Index != b.Index {
				return a.Index < b.Index
			}
			return a.Addr < b.Addr
		})
		s.KS = append(s.KS, ks)
	}
	if len(byName) != len(names) {
		s.KS = append(s.KS, zzKSnap{ID: fmt.Sprintf("<%d managers for %d names>", len(byName), len(names))})
	}
	return s
}

// Render is the canonical text of the persistent part of a snapshot (no lock state).
func (s *zzSnap) Render() string {
	var sb strings.Builder
	for _, k := range s.KS {
		fmt.Fprintf(&sb, "ks %s remark=%q nextExt=%d nextInt=%d\n", k.ID, k.Remark, k.NextExt, k.NextInt)
		for _, a := range k.Addrs {
			fmt.Fprintf(&sb, "  %d/%d %s %s\n", a.Branch, a.Index, a.Pub, a.Addr)
		}
	}
	return sb.String()
}

// Render of the model in the same canonical form.
func (m *zzMW) Render() string {
	var sb strings.Builder
	ids := make([]string, 0, len(m.KS))
	for id := range m.KS {
		ids = append(ids, id)
	}
	sort.Strings(ids)
	for _, id := range ids {
		k := m.KS[id]
		fmt.Fprintf(&sb, "ks %s remark=%q nextExt=%d nextInt=%d\n", k.ID, k.Remark, k.NextExt, k.NextInt)
		keys := make([]zzKey, 0, len(k.Keys))
		for _, x := range k.Keys {
			keys = append(keys, x)
		}
		sort.Slice(keys, func(i, j int) bool {
			if keys[i].Branch != keys[j].Branch {
				return keys[i].Branch < keys[j].Branch
			}
			return keys[i].Index < keys[j].Index
		})
		for _, a := range keys {
			fmt.Fprintf(&sb, "  %d/%d %s %s\n", a.Branch, a.Index, a.Pub, a.Addr)
		}
	}
	return sb.String()
}

func (s *zzSnap) find(id string) *zzKSnap {
	for i := range s.KS {
		if s.KS[i].ID == id {
			return &s.KS[i]
		}
	}
	return nil
}

// zzDiff returns a short description of the first difference between two canonical renderings.
func zzDiff(a, b string) string {
	la, lb := strings.Split(a, "\n"), strings.Split(b, "\n")
	for i := 0; i < len(la) || i < len(lb); i++ {
		var x, y string
		if i < len(la) {
			x = la[i]
		}
		if i < len(lb) {
			y = lb[i]
		}
		if x != y {
			return fmt.Sprintf("line %d: %q vs %q", i+1, x, y)
		}
	}
	return ""
}
