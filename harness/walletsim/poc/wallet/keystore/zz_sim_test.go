//go:build go1.23

package keystore

import (
	"bytes"
	"fmt"
	"testing"

	"massnet.org/mass/zzverif/faultdb"
	"verif/sim"
)

func TestSim(t *testing.T) {
	sims := map[string]sim.RunFunc{}
	for _, p := range []string{"C01", "C02", "C03", "C04", "C05", "C06"} {
		p := p
		sims[p] = func(r *sim.Run) { zzRunSeq(r, p) }
	}
	sims["C12"] = zzRunC12
	sims["C14"] = zzRunC14
	sim.Main(sims)
}

// zzRunSeq: one sequential wallet history, fault-free, with the oracles of the focus property.
func zzRunSeq(r *sim.Run, focus string) {
	e := zzNewEnv(r)
	defer e.shutdown()
	x := zzNewExec(e, focus)
	x.faultyHistory = r.Config == "faults"
	prog := zzGenProgram(r.T, focus, 36)
	x.openAll()
	x.run(prog, -1, nil)
	if r.Failed() || x.stopped {
		return
	}
	// every history ends with a restart of both wallets (C02) ...
	for i := range e.w {
		x.step(len(prog)+i, zzOp{Kind: oRestart, W: i, P1: zzPassRef{pCurPub, 0}}, nil)
		if r.Failed() || x.stopped {
			return
		}
	}
	// ... after which the current private passphrase still unlocks and issued keys still sign (C05)
	if focus == "C05" || focus == "C03" || focus == "C02" {
		for i := range e.w {
			if len(x.m[i].KS) == 0 {
				continue
			}
			x.step(len(prog)+2, zzOp{Kind: oUnlock, W: i, P1: zzPassRef{pCurPriv, 0}}, nil)
			for k := 0; k < len(x.m[i].Issued) && k < 6 && !r.Failed(); k++ {
				x.step(len(prog)+3+k, zzOp{Kind: oSign, W: i, Key: r.T.Choose("final.key", 24), Digest: k}, nil)
			}
		}
	}
}

// ---------------------------------------------------------------------------------------------
// C12

func zzRunC12(r *sim.Run) {
	t := r.T
	maxOps := 9
	if r.Config == "enum" {
		maxOps = 6
	}
	// pass 1: the same program fault-free, recording per-operation storage-call counts,
	// snapshots and models (the "complete effect" reference)
	mark := len(t.Rec)
	_ = mark
	e1 := zzNewEnv(r)
	params := zzLastParams
	x1 := zzNewExec(e1, "C12")
	x1.record = true
	prog := zzGenProgram(t, "C12", maxOps)
	x1.openAll()
	x1.run(prog, -1, nil)
	e1.shutdown()
	if r.Failed() {
		return
	}
	n := len(x1.calls)
	if n == 0 {
		return
	}
	// choose the operation to cut: biased to the last ones (most state built up)
	var cands []int
	for i := 0; i < n; i++ {
		if x1.calls[i] > 0 {
			cands = append(cands, i)
		}
	}
	if len(cands) == 0 {
		return
	}
	k := cands[len(cands)-1-t.Choose("fault.op", min(len(cands), 4))%len(cands)]
	effects := []faultdb.Effect{faultdb.Fail, faultdb.CrashBefore, faultdb.CrashAfter}
	if r.Config == "enum" {
		// enumerate every storage call of operation k x every effect
		for c := 0; c < x1.calls[k] && !r.Failed(); c++ {
			for _, ef := range effects {
				zzFaultedPass(r, params, prog, x1, k, &faultdb.Plan{Call: c, Effect: ef})
				if r.Failed() {
					return
				}
			}
		}
		r.Probe("enumerated-op")
		return
	}
	plan := &faultdb.Plan{Effect: effects[t.Choose("fault.effect", 3)]}
	switch t.Choose("fault.where", 4) {
	case 0:
		plan.OnlyKinds = []string{"Commit"}
		plan.Call = 0
	case 1:
		plan.OnlyKinds = []string{"Put", "Delete", "Clear", "DeleteBucket", "NewBucket"}
		plan.Call = t.Choose("fault.call", 24)
	default:
		plan.Call = t.Choose("fault.call", x1.calls[k])
	}
	zzFaultedPass(r, params, prog, x1, k, plan)
}

func zzFaultedPass(r *sim.Run, params zzParams, prog []zzOp, ref *zzExec, k int, plan *faultdb.Plan) {
	e2 := zzNewEnvP(r, params)
	defer e2.shutdown()
	x2 := zzNewExec(e2, "C12")
	x2.ref = ref
	x2.openAll()
	r.Event("--- faulted pass: op %d, %s at call %d %v", k, plan.Effect, plan.Call, plan.OnlyKinds)
	x2.run(prog[:k+1], k, plan)
}

// afterFault: the C12 oracle proper.
func (x *zzExec) afterFault(i int, op zzOp, plan *faultdb.Plan, fired string, res zzRes, before [2]*zzMW, beforeSnap [2]string) {
	r := x.r
	site := fmt.Sprintf("%s/%s:%s", zzOpNames[op.Kind], fired, plan.Effect)
	ref := x.ref
	afterSnap := beforeSnap
	afterM := before
	refOK := ref != nil && i < len(ref.snaps) && ref.succ[i]
	if refOK {
		afterSnap = ref.snaps[i]
		afterM = ref.models[i]
	}
	died := res.o.Crashed || res.o.Panicked
	if res.o.Panicked {
		r.Probe("panic-under-fault")
	}
	if res.o.Budget {
		x.fail("C12", "no-termination/"+site, "%s did not terminate after the injected fault", op)
		return
	}
	if !died {
		// the process continued: what does the running instance show?
		for j, w := range x.e.w {
			got := zzTakeSnap(w.kmc).Render()
			if res.err != nil {
				if got != beforeSnap[j] {
					x.fail("C12", "error-but-state-changed/"+site, "%s reported %v, but the running %s no longer shows the prior state: %s", op, res.err, w.name, zzDiff(got, beforeSnap[j]))
				}
			} else if got != afterSnap[j] {
				x.fail("C12", "acknowledged-but-incomplete/"+site, "%s was acknowledged although a storage call failed, and the running %s does not show its complete effect: %s", op, w.name, zzDiff(got, afterSnap[j]))
			}
		}
		// ... under which public passphrase does it go on working? (keystores created from now on are
		// keyed with it: the prior one after an error, the new one after an acknowledgement)
		for j, w := range x.e.w {
			want := before[j].PubPass
			if res.err == nil {
				want = afterM[j].PubPass
			}
			if len(want) > 0 && !bytes.Equal(w.kmc.pubPassphrase, want) {
				x.fail("C12", zzIf(res.err != nil, "error-but-public-passphrase-changed/", "acknowledged-but-public-passphrase-unchanged/")+site,
					"%s returned err=%v, but the running %s now works under another public passphrase than this outcome implies", op, res.err, w.name)
			}
		}
		// ... and which private passphrase does it honour? (prior one after an error, new one after an acknowledgement)
		for j, w := range x.e.w {
			want := before[j].PrivPass
			if res.err == nil {
				want = afterM[j].PrivPass
			}
			nks := 0
			for range w.kmc.managedKeystores {
				nks++
			}
			if nks == 0 || len(want) == 0 || !w.kmc.IsLocked() {
				continue
			}
			var uerr error
			o := x.e.call(func() { uerr = w.kmc.Unlock(append([]byte{}, want...)) })
			if x.abnormal(o) || uerr != nil {
				x.fail("C12", zzIf(res.err != nil, "error-but-passphrase-changed/", "acknowledged-but-passphrase-unchanged/")+site,
					"%s returned err=%v, but the running %s does not unlock with the passphrase that this outcome implies: %v", op, res.err, w.name, uerr)
			}
			x.e.call(func() { w.kmc.Lock() })
		}
		if x.r.Failed() {
			return
		}
		for _, w := range x.e.w {
			x.e.closeWallet(w)
		}
	} else {
		x.e.kill(false)
	}
	// restart
	for j, w := range x.e.w {
		cands := [][]byte{before[j].PubPass}
		if !bytes.Equal(afterM[j].PubPass, before[j].PubPass) {
			cands = append(cands, afterM[j].PubPass)
		}
		var err error
		for _, c := range cands {
			if err = x.e.open(w, c); err == nil {
				break
			}
		}
		if err != nil {
			x.fail("C12", "reopen-fails/"+site, "after the fault in %s, %s does not open again: %v", op, w.name, err)
			return
		}
		got := zzTakeSnap(w.kmc).Render()
		state := ""
		switch {
		case !died && res.err == nil:
			// acknowledged: must be durable
			if got != afterSnap[j] {
				x.fail("C12", "acknowledged-but-not-durable/"+site, "%s was acknowledged, but after restart %s does not show its effect: %s", op, w.name, zzDiff(got, afterSnap[j]))
				return
			}
			state = "after"
		case got == beforeSnap[j]:
			state = "before"
		case got == afterSnap[j]:
			state = "after"
		default:
			x.fail("C12", "partial-effect/"+site, "after the fault in %s, the restarted %s shows neither the prior state nor the complete effect: vs prior: %s; vs complete: %s", op, w.name, zzDiff(got, beforeSnap[j]), zzDiff(got, afterSnap[j]))
			return
		}
		r.Event("restart %s after fault: state=%s", w.name, state)
		// the private passphrase is either the old or the new one, for all keystores alike
		nks := 0
		for range w.kmc.managedKeystores {
			nks++
		}
		if nks > 0 {
			var pc [][]byte
			for _, p := range [][]byte{before[j].PrivPass, afterM[j].PrivPass} {
				if len(p) > 0 && (len(pc) == 0 || !bytes.Equal(pc[0], p)) {
					pc = append(pc, p)
				}
			}
			okc := 0
			for _, p := range pc {
				var uerr error
				o := x.e.call(func() { uerr = w.kmc.Unlock(append([]byte{}, p...)) })
				if !x.abnormal(o) && uerr == nil {
					okc++
					x.e.call(func() { w.kmc.Lock() })
				}
			}
			if len(pc) > 0 && okc == 0 {
				x.fail("C12", "partial-rekey/"+site, "after the fault in %s, neither the old nor the new private passphrase unlocks %s (keystores re-keyed partially)", op, w.name)
				return
			}
		}
	}
}
