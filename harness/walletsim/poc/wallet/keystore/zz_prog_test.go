//go:build go1.23

package keystore

// Abstract wallet programs: generated from the tape up front, state-independent (they refer to
// keystores by slot, to keys by issue order, to passphrases symbolically), so that the same
// program can be executed twice - once fault-free, once with an injected fault (C12).

import (
	"fmt"

	"massnet.org/mass/config"
	"massnet.org/mass/poc/wallet/keystore/hdkeychain"
	"verif/sim"
)

type zzOpKind int

const (
	oNewKeystore zzOpKind = iota
	oNextAddr
	oGenPub
	oRemark
	oChangePriv
	oChangePub
	oDelete
	oExport
	oImport
	oLock
	oUnlock
	oSign
	oLookup
	oRestart
	oVerify
	oNumKinds
)

var zzOpNames = [...]string{"NewKeystore", "NextAddresses", "GenerateNewPublicKey", "ChangeRemark", "ChangePrivPassphrase",
	"ChangePubPassphrase", "DeleteKeystore", "ExportKeystore", "ImportKeystore", "Lock", "Unlock", "Sign", "Lookup", "Restart", "VerifySig"}

type zzPassKind int

const (
	pCurPriv zzPassKind = iota
	pCurPub
	pOldPriv
	pOldPub
	pFresh
	pBad
	pEmpty
	pAtExport // the private passphrase in force when the file was exported
	pCurPlus  // the current private passphrase with two more characters appended
)

type zzPassRef struct {
	K zzPassKind
	N int
}

func (p zzPassRef) String() string {
	return fmt.Sprintf("%s#%d", [...]string{"curPriv", "curPub", "oldPriv", "oldPub", "fresh", "illformed", "empty", "atExport", "curPrivPlus"}[p.K], p.N)
}

type zzOp struct {
	Kind     zzOpKind
	W        int // wallet index
	Slot     int
	Internal bool
	N        int
	Seed     int // seed index; -1 = let the wallet generate one; -2 = illegal length
	Remark   int
	P1, P2   zzPassRef
	Export   int // index into the export pool
	Corrupt  int // corruption kind, 0 = none
	CorrArg  int
	Key      int // key reference
	MsgKind  int // 0 SignHash, 1 SignMessage, 2 bad hash length
	Digest   int
}

var zzBadPasses = [][]byte{[]byte("abc12"), []byte("0123456789012345678901234567890123456789X"), []byte("has!bang12"), []byte("with space1"), []byte("\xe2\x82\xacuro12345")}

func zzFreshPass(n int) []byte {
	const alpha = "0123456789abcdefghijklmnopqrstuvwxyzABCDEFGHIJKLMNOPQRSTUVWXYZ@#$%^&"
	// every third passphrase has the greatest admissible length
	l := 14
	if n%3 == 2 {
		l = 40
	}
	b := sim.DetBytes("pass", uint64(n), l)
	out := make([]byte, l)
	for i, c := range b {
		out[i] = alpha[int(c)%len(alpha)]
	}
	return out
}

// seeds 0..4 are ordinary; 5..7 are the unusual inputs of HD derivation: a master key, a
// purpose-level key and an account-level key whose leading byte is zero (1 seed in 256 each).
var zzSpecialSeeds [][]byte

func zzFindSpecialSeeds() {
	if zzSpecialSeeds != nil {
		return
	}
	zzSpecialSeeds = make([][]byte, 3)
	found := 0
	scope := Net2KeyScope[config.ChainParams.HDCoinType]
	for i := uint64(1000); found < 3 && i < 400000; i++ {
		seed := sim.DetBytes("seed", i, 32)
		root, err := hdkeychain.NewMaster(seed, config.ChainParams)
		if err != nil {
			continue
		}
		lead := func(k *hdkeychain.ExtendedKey) bool {
			b, err := k.PrivKey()
			return err == nil && (len(b) < 32 || b[0] == 0)
		}
		purpose, err := root.Child(scope.Purpose + hdkeychain.HardenedKeyStart)
		if err != nil {
			continue
		}
		coin, err := purpose.Child(scope.Coin + hdkeychain.HardenedKeyStart)
		if err != nil {
			continue
		}
		acct, err := coin.Child(0 + hdkeychain.HardenedKeyStart)
		if err != nil {
			continue
		}
		switch {
		case zzSpecialSeeds[0] == nil && lead(root):
			zzSpecialSeeds[0] = seed
			found++
		case zzSpecialSeeds[1] == nil && (lead(purpose) || lead(coin)):
			zzSpecialSeeds[1] = seed
			found++
		case zzSpecialSeeds[2] == nil && lead(acct):
			zzSpecialSeeds[2] = seed
			found++
		}
	}
	for i := range zzSpecialSeeds {
		if zzSpecialSeeds[i] == nil {
			zzSpecialSeeds[i] = sim.DetBytes("seed", uint64(50+i), 32)
		}
	}
}

func zzSeedBytes(i int) []byte {
	if i == -2 {
		return sim.DetBytes("seed", 999, 27)
	}
	if i < 0 {
		return nil
	}
	if i >= 5 && i <= 7 {
		zzFindSpecialSeeds()
		return zzSpecialSeeds[i-5]
	}
	return sim.DetBytes("seed", uint64(i), 32)
}

func zzRemark(i int) string {
	if i <= 0 {
		return ""
	}
	return []string{"", "plots-a", "backup", "r3", "x y z", "备份"}[i%6]
}

// passMix draws a passphrase argument: mostly the right one, otherwise every kind of wrong one.
func zzPickPass(t *sim.Tape, label string, right zzPassKind, pRight int) zzPassRef {
	if t.Bool(label+".wrong", 100-pRight, 100) {
		k := []zzPassKind{pOldPriv, pOldPub, pCurPub, pCurPriv, pFresh, pBad, pEmpty, pCurPlus}[t.Choose(label+".kind", 8)]
		return zzPassRef{k, t.Choose(label+".n", 4)}
	}
	return zzPassRef{right, 0}
}

// weights per focus property, indexed by zzOpKind
var zzWeights = map[string][]int{
	//            New Next Gen Rem CPriv CPub Del Exp Imp Lock Unl Sign Look Rest Ver
	"default": {8, 10, 8, 3, 3, 2, 3, 4, 5, 3, 5, 6, 3, 5, 1},
	"C01":     {8, 10, 5, 3, 3, 1, 5, 12, 16, 2, 4, 3, 1, 4, 0},
	"C02":     {8, 10, 6, 5, 4, 4, 4, 3, 4, 2, 3, 1, 1, 14, 0},
	"C03":     {6, 5, 3, 1, 8, 3, 5, 5, 4, 8, 10, 6, 1, 5, 2},
	"C04":     {8, 8, 5, 3, 5, 4, 3, 6, 5, 3, 5, 4, 1, 4, 1},
	"C05":     {6, 12, 8, 1, 4, 1, 2, 3, 5, 4, 8, 18, 3, 5, 4},
	"C06":     {6, 10, 20, 1, 2, 1, 3, 3, 4, 3, 4, 1, 8, 10, 0},
	"C12":     {8, 8, 6, 4, 6, 5, 6, 2, 6, 1, 3, 1, 1, 2, 0},
}

func zzGenProgram(t *sim.Tape, focus string, maxOps int) []zzOp {
	w := zzWeights[focus]
	if w == nil {
		w = zzWeights["default"]
	}
	// swarm: per run, switch some op kinds off
	ww := append([]int{}, w...)
	for i := range ww {
		if i != int(oNewKeystore) && t.Bool("swarm.off", 1, 6) {
			ww[i] = 0
		}
	}
	n := t.Range("nops", 4, maxOps)
	twoWallets := t.Bool("twowallets", 2, 3)
	var prog []zzOp
	// most runs start by creating a keystore so that the interesting states are reached early
	if t.Bool("prologue", 4, 5) {
		prog = append(prog, zzOp{Kind: oNewKeystore, W: 0, Seed: []int{0, 1, 2, 3, 5, 6, 7, 0}[t.Choose("seed", 8)], Remark: t.Choose("remark", 6), P1: zzPassRef{pCurPriv, 0}})
	}
	for len(prog) < n {
		op := zzOp{Kind: zzOpKind(t.Weighted("op", ww))}
		if twoWallets && t.Bool("w2", 1, 4) {
			op.W = 1
		}
		switch op.Kind {
		case oNewKeystore:
			op.Seed = []int{-1, 0, 1, 2, 3, 4, 5, 6, 7}[t.Choose("seed", 9)]
			if t.Bool("seed.illegal", 1, 25) {
				op.Seed = -2
			}
			op.Remark = t.Choose("remark", 6)
			op.P1 = zzPickPass(t, "newks.pass", pCurPriv, 80)
		case oNextAddr:
			op.Slot = t.Weighted("slot", []int{8, 4, 2, 1})
			op.Internal = t.Bool("internal", 1, 3)
			op.N = t.Choose("naddr", 6)
			if t.Bool("naddr.huge", 1, 20) {
				op.N = -1 // more than an account can hold: must be refused
			}
		case oGenPub:
		case oRemark:
			op.Slot = t.Weighted("slot", []int{8, 4, 2, 1})
			op.Remark = t.Choose("remark", 6)
		case oChangePriv:
			op.P1 = zzPickPass(t, "cpriv.old", pCurPriv, 70)
			op.P2 = zzPassRef{pFresh, t.Choose("cpriv.new", 5)}
			if t.Bool("cpriv.newodd", 1, 6) {
				op.P2 = zzPickPass(t, "cpriv.newk", pFresh, 0)
			}
		case oChangePub:
			op.P1 = zzPickPass(t, "cpub.old", pCurPub, 75)
			op.P2 = zzPassRef{pFresh, 5 + t.Choose("cpub.new", 4)}
			if t.Bool("cpub.newodd", 1, 6) {
				op.P2 = zzPickPass(t, "cpub.newk", pFresh, 0)
			}
		case oDelete:
			op.Slot = t.Weighted("slot", []int{8, 4, 2, 1})
			op.P1 = zzPickPass(t, "del.pass", pCurPriv, 70)
		case oExport:
			op.Slot = t.Weighted("slot", []int{8, 4, 2, 1})
			op.P1 = zzPickPass(t, "exp.pass", pCurPriv, 80)
		case oImport:
			op.Export = t.Choose("imp.file", 6)
			if t.Bool("imp.corrupt", 1, 3) {
				op.Corrupt = 1 + t.Choose("imp.ckind", 9)
				op.CorrArg = t.Choose("imp.carg", 64)
			}
			op.P1 = zzPickPass(t, "imp.old", pAtExport, 80)
			// new passphrase: empty (= keep), the target wallet's current one, or something else
			switch t.Choose("imp.new", 6) {
			case 0, 1:
				op.P2 = zzPassRef{pEmpty, 0}
			case 2, 3, 4:
				op.P2 = zzPassRef{pCurPriv, 0}
			default:
				op.P2 = zzPickPass(t, "imp.newk", pFresh, 0)
			}
		case oLock:
		case oUnlock:
			op.P1 = zzPickPass(t, "unl.pass", pCurPriv, 70)
		case oSign, oVerify:
			op.Key = t.Choose("key", 24)
			if t.Bool("key.foreign", 1, 10) {
				op.Key = -1
			}
			op.MsgKind = t.Weighted("msgkind", []int{6, 4, 1})
			op.Digest = t.Choose("digest", 8)
		case oLookup:
			op.Key = t.Choose("key", 24)
			if t.Bool("key.foreign", 1, 8) {
				op.Key = -1
			}
		case oRestart:
			op.P1 = zzPickPass(t, "rst.pub", pCurPub, 75)
			op.N = t.Choose("rst.kind", 1) // graceful
		}
		prog = append(prog, op)
	}
	return prog
}

func (op zzOp) String() string {
	s := fmt.Sprintf("W%d.%s", op.W+1, zzOpNames[op.Kind])
	switch op.Kind {
	case oNewKeystore:
		s += fmt.Sprintf("(seed#%d remark#%d pass=%v)", op.Seed, op.Remark, op.P1)
	case oNextAddr:
		s += fmt.Sprintf("(slot%d internal=%v n=%d)", op.Slot, op.Internal, op.N)
	case oRemark:
		s += fmt.Sprintf("(slot%d remark#%d)", op.Slot, op.Remark)
	case oChangePriv, oChangePub:
		s += fmt.Sprintf("(old=%v new=%v)", op.P1, op.P2)
	case oDelete, oExport:
		s += fmt.Sprintf("(slot%d pass=%v)", op.Slot, op.P1)
	case oImport:
		s += fmt.Sprintf("(file#%d corrupt=%d/%d old=%v new=%v)", op.Export, op.Corrupt, op.CorrArg, op.P1, op.P2)
	case oUnlock:
		s += fmt.Sprintf("(pass=%v)", op.P1)
	case oSign, oVerify:
		s += fmt.Sprintf("(key#%d kind=%d digest#%d)", op.Key, op.MsgKind, op.Digest)
	case oLookup:
		s += fmt.Sprintf("(key#%d)", op.Key)
	case oRestart:
		s += fmt.Sprintf("(pub=%v)", op.P1)
	}
	return s
}
