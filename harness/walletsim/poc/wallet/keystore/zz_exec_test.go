//go:build go1.23

package keystore

// Interpreter of abstract wallet programs against the real keystore manager, with the oracles of
// C01-C06 and C12. Every oracle is tagged with the property it belongs to; a run reports only the
// violations of its focus property (the others are counted as off-focus observations).

import (
	"bytes"
	"crypto/sha512"
	"encoding/hex"
	"encoding/json"
	"fmt"
	"hash/fnv"
	"sort"
	"strings"

	"github.com/massnetorg/mass-core/pocec"
	"github.com/massnetorg/mass-core/wire"
	"massnet.org/mass/config"
	walletdb "massnet.org/mass/poc/wallet/db"
	ldbpkg "massnet.org/mass/poc/wallet/db/ldb"
	"massnet.org/mass/zzverif/faultdb"
	"verif/sim"
)

type zzExport struct {
	Data []byte
	KS   *zzMK
	Pass []byte
	From int
}

type zzExec struct {
	e       *zzEnv
	r       *sim.Run
	focus   string
	m       [2]*zzMW
	exports []zzExport
	// recording (pass 1 of C12)
	record   bool
	calls    []int
	snaps    [][2]string
	models   [][2]*zzMW
	succ     []bool
	stopped  bool
	needles  *zzNeedles
	opName   string
	faulted  bool // an injected fault fired in the current op
	scanC04  bool
	nC03     int
	secretsBroken bool
	faultyHistory bool
	ref      *zzExec // fault-free reference execution of the same program (C12)
}

func (x *zzExec) fail(prop, check, format string, args ...interface{}) {
	if prop == "C03" {
		x.nC03++
	}
	if prop == x.focus {
		x.r.Fail(prop+"/"+check, format, args...)
	} else {
		x.r.Count("offfocus:"+prop+"/"+check, 1)
	}
}

func zzValidPass(p []byte) bool {
	if len(p) < 6 || len(p) > 40 {
		return false
	}
	for _, c := range p {
		ok := c >= '0' && c <= '9' || c >= 'a' && c <= 'z' || c >= 'A' && c <= 'Z' || strings.IndexByte("@#$%^&", c) >= 0
		if !ok {
			return false
		}
	}
	return true
}

func (x *zzExec) pass(m *zzMW, p zzPassRef, ex *zzExport) []byte {
	switch p.K {
	case pCurPriv:
		if len(m.KS) > 0 {
			return m.PrivPass
		}
		return zzFreshPass(0)
	case pCurPub:
		return m.PubPass
	case pOldPriv:
		if len(m.OldPriv) > 0 {
			return m.OldPriv[p.N%len(m.OldPriv)]
		}
		return zzFreshPass(20 + p.N)
	case pOldPub:
		if len(m.OldPub) > 0 {
			return m.OldPub[p.N%len(m.OldPub)]
		}
		return zzFreshPass(30 + p.N)
	case pFresh:
		return zzFreshPass(p.N)
	case pBad:
		return zzBadPasses[p.N%len(zzBadPasses)]
	case pEmpty:
		return []byte{}
	case pAtExport:
		if ex != nil {
			return ex.Pass
		}
		return zzFreshPass(0)
	case pCurPlus:
		return append(append([]byte{}, x.pass(m, zzPassRef{pCurPriv, 0}, nil)...), 'Z', 'z')
	}
	return nil
}

func zzNewExec(e *zzEnv, focus string) *zzExec {
	x := &zzExec{e: e, r: e.r, focus: focus}
	x.m[0] = zzNewMW(zzFreshPass(40))
	x.m[1] = zzNewMW(zzFreshPass(41))
	x.scanC04 = focus == "C04"
	if x.scanC04 {
		x.needles = zzNewNeedles()
		x.needles.addPass(x.m[0].PubPass, "pubpass")
		x.needles.addPass(x.m[1].PubPass, "pubpass")
	}
	return x
}

func (x *zzExec) openAll() bool {
	for i, w := range x.e.w {
		if err := x.e.open(w, x.m[i].PubPass); err != nil {
			sim.EngineError("initial open of %s failed: %v", w.name, err)
		}
	}
	return true
}

const (
	mEither = iota
	mSucceed
	mFail
)

// verdict compares the outcome of an operation with what the property texts demand.
// acceptTag: property/check to report when an operation that must be refused was accepted;
// refuseTag: property/check when one that must succeed failed.
func (x *zzExec) verdict(op zzOp, must int, err error, acceptTag, refuseTag string, why string) {
	name := zzOpNames[op.Kind]
	if must == mFail && err == nil {
		p := strings.SplitN(acceptTag, "/", 2)
		x.fail(p[0], p[1]+"/"+name, "%s was accepted but must be refused: %s", op, why)
	}
	if must == mSucceed && err != nil {
		if refuseTag == "" {
			// no listed property demands that this legitimate request is honoured: observation only
			x.r.Count("observed:legitimate-request-refused/"+name, 1)
			return
		}
		p := strings.SplitN(refuseTag, "/", 2)
		x.fail(p[0], p[1]+"/"+name, "%s failed (%v) but must succeed: %s", op, err, why)
	}
}

func zzHash64(s string) uint64 {
	h := fnv.New64a()
	h.Write([]byte(s))
	return h.Sum64()
}

// run executes prog[from:]; plan (if non-nil) is armed on operation index planAt.
func (x *zzExec) run(prog []zzOp, planAt int, plan *faultdb.Plan) {
	for i, op := range prog {
		if x.stopped || x.r.Failed() {
			return
		}
		var p *faultdb.Plan
		if i == planAt {
			p = plan
		}
		if x.faultyHistory && x.r.T.Bool("hist.fault", 1, 4) {
			p = &faultdb.Plan{Effect: faultdb.Fail, Call: x.r.T.Choose("hist.fault.call", 36), UntilCommit: true}
		}
		x.step(i, op, p)
		if i == planAt && plan != nil {
			return // a C12 run ends with the post-fault checks
		}
	}
}

func (x *zzExec) step(i int, op zzOp, plan *faultdb.Plan) {
	r := x.r
	r.Ops++
	w := x.e.w[op.W]
	m := x.m[op.W]
	x.opName = zzOpNames[op.Kind]
	before := [2]*zzMW{x.m[0].clone(), x.m[1].clone()}
	beforeSnap := [2]string{}
	if plan != nil {
		for j, ww := range x.e.w {
			beforeSnap[j] = zzTakeSnap(ww.kmc).Render()
		}
	}
	for _, ww := range x.e.w {
		if ww.fdb != nil {
			ww.fdb.Arm(nil)
		}
	}
	if plan != nil && w.fdb != nil {
		w.fdb.Arm(plan)
	}
	res := x.dispatch(op, w, m)
	ncalls := 0
	if w.fdb != nil {
		ncalls = len(w.fdb.Calls)
	}
	fired := ""
	if plan != nil && w.fdb != nil {
		fired = w.fdb.Fired
	}
	r.Event("%d %s -> %s%s", i, op, res.String(), zzIf(fired != "", " [fault "+fmt.Sprint(planEffect(plan))+" at "+fired+"]", ""))
	if x.record {
		x.calls = append(x.calls, ncalls)
	}

	if plan != nil && x.focus != "C12" {
		// storage failures as part of the history (error paths of the focus property's operations)
		if fired != "" {
			r.Fault("storage-" + plan.Effect.String())
			if x.abnormal(res.o) {
				x.stopped = true // a panic or FATAL exit under a storage failure is process death: C12's subject
				return
			}
		}
	} else if plan != nil {
		if fired == "" {
			r.Count("fault-not-reached", 1)
		} else {
			r.Fault(plan.Effect.String())
			x.afterFault(i, op, plan, fired, res, before, beforeSnap)
			x.stopped = true
			return
		}
	}

	if res.o.Panicked {
		x.fail(x.focus, "panic/"+sim.PanicSite(res.o.Stack), "%s panicked: %v", op, res.o.PanicVal)
		x.stopped = true
		return
	}
	if res.o.Crashed {
		x.fail(x.focus, "process-exit/"+x.opName, "%s ended the process without any injected fault: %s", op, res.o.CrashAt)
		x.stopped = true
		return
	}
	if res.o.Budget {
		x.fail(x.focus, "no-termination/"+x.opName, "%s exceeded the step budget", op)
		x.stopped = true
		return
	}
	x.postChecks(op)
	if x.record {
		x.snaps = append(x.snaps, [2]string{zzTakeSnap(x.e.w[0].kmc).Render(), zzTakeSnap(x.e.w[1].kmc).Render()})
		x.models = append(x.models, [2]*zzMW{x.m[0].clone(), x.m[1].clone()})
		x.succ = append(x.succ, res.err == nil)
	}
	r.State(zzHash64(x.m[0].Render() + "|" + x.m[1].Render() + fmt.Sprint(x.m[0].Locked, x.m[1].Locked)))
}

func planEffect(p *faultdb.Plan) string {
	if p == nil {
		return ""
	}
	return p.Effect.String()
}

func zzIf(c bool, a, b string) string {
	if c {
		return a
	}
	return b
}

type zzRes struct {
	o    sim.Outcome
	err  error
	note string
}

func (z zzRes) String() string {
	switch {
	case z.o.Panicked:
		return fmt.Sprintf("PANIC %v", z.o.PanicVal)
	case z.o.Crashed:
		return "PROCESS-EXIT " + z.o.CrashAt
	case z.o.Budget:
		return "STEP-BUDGET"
	case z.err != nil:
		return "err=" + z.err.Error() + zzIf(z.note != "", " "+z.note, "")
	}
	return "ok" + zzIf(z.note != "", " "+z.note, "")
}

func (x *zzExec) dispatch(op zzOp, w *zzWallet, m *zzMW) zzRes {
	switch op.Kind {
	case oNewKeystore:
		return x.doNewKeystore(op, w, m)
	case oNextAddr:
		return x.doNextAddr(op, w, m)
	case oGenPub:
		return x.doGenPub(op, w, m)
	case oRemark:
		return x.doRemark(op, w, m)
	case oChangePriv:
		return x.doChangePriv(op, w, m)
	case oChangePub:
		return x.doChangePub(op, w, m)
	case oDelete:
		return x.doDelete(op, w, m)
	case oExport:
		return x.doExport(op, w, m)
	case oImport:
		return x.doImport(op, w, m)
	case oLock:
		o := x.e.call(func() { w.kmc.Lock() })
		if !o.Panicked && !o.Crashed {
			m.Locked = true
		}
		return zzRes{o: o}
	case oUnlock:
		return x.doUnlock(op, w, m)
	case oSign:
		return x.doSign(op, w, m)
	case oVerify:
		return x.doVerify(op, w, m)
	case oLookup:
		return x.doLookup(op, w, m)
	case oRestart:
		return x.doRestart(op, w, m)
	}
	return zzRes{}
}

func (x *zzExec) abnormal(o sim.Outcome) bool { return o.Panicked || o.Crashed || o.Budget }

// ---------------------------------------------------------------------------------------------

func (x *zzExec) keyFromAddr(ksid string, ma *ManagedAddress) zzKey {
	return zzKey{KS: ksid, Branch: ma.derivationPath.Branch, Index: ma.derivationPath.Index,
		Pub: hex.EncodeToString(ma.PubKey().SerializeCompressed()), Addr: ma.String()}
}

func (x *zzExec) doNewKeystore(op zzOp, w *zzWallet, m *zzMW) zzRes {
	pass := x.pass(m, op.P1, nil)
	seed := zzSeedBytes(op.Seed)
	remark := zzRemark(op.Remark)
	var id string
	var err error
	o := x.e.call(func() {
		id, err = w.kmc.NewKeystore(append([]byte{}, pass...), seed, remark, config.ChainParams, x.e.fastScrypt())
	})
	res := zzRes{o: o, err: err}
	if x.abnormal(o) {
		return res
	}
	must, why := mSucceed, "well-formed passphrase and fresh seed"
	acceptTag := "C03/second-passphrase-accepted"
	dup := false
	if op.Seed >= 0 {
		for _, k := range m.KS {
			if k.SeedIdx == op.Seed {
				dup = true
			}
		}
	}
	switch {
	case len(m.KS) > 0 && !bytes.Equal(pass, m.PrivPass):
		must, why = mFail, "the wallet already has keystores under a different private passphrase"
	case dup:
		must, why, acceptTag = mFail, "a keystore from the same seed is already present", "C01/duplicate-accepted"
	case !zzValidPass(pass) || bytes.Equal(pass, m.PubPass) || op.Seed == -2:
		must = mEither
	}
	x.verdict(op, must, err, acceptTag, "", why)
	if err == nil {
		if len(m.KS) == 0 {
			m.PrivPass = append([]byte{}, pass...)
			if x.needles != nil {
				x.needles.addPass(pass, "privpass")
			}
		}
		if _, exists := m.KS[id]; exists {
			x.fail("C01", "duplicate-accepted/NewKeystore", "NewKeystore returned the id of a keystore that already exists: %s", id)
		}
		nk := &zzMK{ID: id, Remark: remark, SeedIdx: op.Seed, Keys: map[string]zzKey{}}
		for _, old := range m.Issued {
			if old.KS == id {
				nk.Regressed = true // a deleted keystore re-created from its seed starts over
			}
		}
		m.KS[id] = nk
		m.Order = append(m.Order, id)
		res.note = id
		if x.needles != nil {
			x.needles.addKeystore(x, w, id, seed)
		}
	}
	return res
}

func (x *zzExec) doNextAddr(op zzOp, w *zzWallet, m *zzMW) zzRes {
	id, ok := m.slot(op.Slot)
	var mas []*ManagedAddress
	var err error
	n := uint32(op.N)
	if op.N < 0 {
		n = 1 << 31
	}
	o := x.e.call(func() { mas, err = w.kmc.NextAddresses(id, op.Internal, n) })
	res := zzRes{o: o, err: err}
	if x.abnormal(o) {
		return res
	}
	must := mSucceed
	if !ok || op.N < 0 {
		must = mFail
	}
	x.verdict(op, must, err, "C06/unknown-keystore-accepted", "C06/unexpected-failure", "keystore exists")
	if err != nil || !ok {
		return res
	}
	k := m.KS[id]
	branch, next := uint32(0), &k.NextExt
	if op.Internal {
		branch, next = 1, &k.NextInt
	}
	if len(mas) != op.N {
		x.fail("C06", "address-count/NextAddresses", "asked for %d addresses, got %d", op.N, len(mas))
	}
	for _, ma := range mas {
		key := x.keyFromAddr(id, ma)
		if key.Branch != branch || key.Index != *next {
			x.fail("C06", "index-not-consecutive/NextAddresses", "keystore %s branch %d: expected index %d, got %d/%d", id, branch, *next, key.Branch, key.Index)
		}
		if old, dup := m.liveKey(key.Pub); dup {
			x.fail("C06", "key-reissued/NextAddresses", "public key %s was already issued as %s %d/%d", key.Pub, old.KS, old.Branch, old.Index)
		}
		k.Keys[fmt.Sprintf("%d/%d", key.Branch, key.Index)] = key
		m.Issued = append(m.Issued, key)
		*next = key.Index + 1
	}
	res.note = fmt.Sprintf("%d keys", len(mas))
	return res
}

func (x *zzExec) doGenPub(op zzOp, w *zzWallet, m *zzMW) zzRes {
	var pub *pocec.PublicKey
	var ord uint32
	var err error
	o := x.e.call(func() { pub, ord, err = w.kmc.GenerateNewPublicKey() })
	res := zzRes{o: o, err: err}
	if x.abnormal(o) {
		return res
	}
	must := mSucceed
	if len(m.KS) == 0 {
		must = mFail
	}
	x.verdict(op, must, err, "C06/issued-without-keystore", "C06/unexpected-failure", "at least one keystore exists")
	if err != nil {
		return res
	}
	if pub == nil {
		x.fail("C06", "nil-key/GenerateNewPublicKey", "no error but nil public key")
		return res
	}
	ph := hex.EncodeToString(pub.SerializeCompressed())
	if old, dup := m.liveKey(ph); dup {
		x.fail("C06", "key-reissued/GenerateNewPublicKey", "public key %s was already returned (as %s %d/%d)", ph, old.KS, old.Branch, old.Index)
	}
	// which keystore owns it is the wallet's choice: find it in the snapshot
	snap := zzTakeSnap(w.kmc)
	owner := ""
	var got zzASnap
	for _, ks := range snap.KS {
		for _, a := range ks.Addrs {
			if a.Pub == ph {
				owner, got = ks.ID, a
			}
		}
	}
	k := m.KS[owner]
	if owner == "" || k == nil {
		x.fail("C06", "unowned-key/GenerateNewPublicKey", "returned key %s belongs to no keystore of the wallet", ph)
		return res
	}
	if got.Branch != 0 || got.Index != ord {
		x.fail("C06", "ordinal-mismatch/GenerateNewPublicKey", "returned ordinal %d but the key is %d/%d in keystore %s", ord, got.Branch, got.Index, owner)
	}
	if ord != k.NextExt {
		x.fail("C06", "ordinal-not-consecutive/GenerateNewPublicKey", "keystore %s: next external index is %d, issued ordinal %d", owner, k.NextExt, ord)
	}
	key := zzKey{KS: owner, Branch: 0, Index: ord, Pub: ph, Addr: got.Addr}
	k.Keys[fmt.Sprintf("0/%d", ord)] = key
	k.NextExt = ord + 1
	m.Issued = append(m.Issued, key)
	m.Plot = append(m.Plot, key)
	// a later ordinal lookup returns the same value
	if o2, ok := w.kmc.GetPublicKeyOrdinal(pub); !ok || o2 != ord {
		x.fail("C06", "ordinal-lookup/GenerateNewPublicKey", "GetPublicKeyOrdinal right after issuance = (%d,%v), issued ordinal %d", o2, ok, ord)
	}
	res.note = fmt.Sprintf("%s ord=%d", owner[:10], ord)
	return res
}

func (x *zzExec) doRemark(op zzOp, w *zzWallet, m *zzMW) zzRes {
	id, ok := m.slot(op.Slot)
	remark := zzRemark(op.Remark)
	var err error
	o := x.e.call(func() { err = w.kmc.ChangeRemark(id, remark) })
	res := zzRes{o: o, err: err}
	if x.abnormal(o) {
		return res
	}
	must := mSucceed
	if !ok {
		must = mFail
	}
	x.verdict(op, must, err, "C02/unknown-keystore-accepted", "", "keystore exists")
	if err == nil && ok {
		m.KS[id].Remark = remark
	}
	return res
}

func (x *zzExec) doChangePriv(op zzOp, w *zzWallet, m *zzMW) zzRes {
	old, nw := x.pass(m, op.P1, nil), x.pass(m, op.P2, nil)
	var err error
	o := x.e.call(func() {
		err = w.kmc.ChangePrivPassphrase(append([]byte{}, old...), append([]byte{}, nw...), nil)
	})
	res := zzRes{o: o, err: err}
	if x.abnormal(o) {
		return res
	}
	must := mSucceed
	switch {
	case len(m.KS) == 0:
		must = mEither
	case !bytes.Equal(old, m.PrivPass):
		must = mFail
	case !zzValidPass(nw) || bytes.Equal(nw, old) || bytes.Equal(nw, m.PubPass):
		must = mEither
	}
	x.verdict(op, must, err, "C03/wrong-passphrase-accepted", "", "old passphrase is the current one")
	if err == nil && len(m.KS) > 0 {
		m.OldPriv = append(m.OldPriv, m.PrivPass)
		m.PrivPass = append([]byte{}, nw...)
		if x.needles != nil {
			x.needles.addPass(nw, "privpass")
			x.needles.refresh(x)
		}
	}
	return res
}

func (x *zzExec) doChangePub(op zzOp, w *zzWallet, m *zzMW) zzRes {
	old, nw := x.pass(m, op.P1, nil), x.pass(m, op.P2, nil)
	var err error
	o := x.e.call(func() {
		err = w.kmc.ChangePubPassphrase(append([]byte{}, old...), append([]byte{}, nw...), nil)
	})
	res := zzRes{o: o, err: err}
	if x.abnormal(o) {
		return res
	}
	must := mSucceed
	switch {
	case len(m.KS) == 0:
		must = mEither
	case !bytes.Equal(old, m.PubPass):
		must = mFail
	case !zzValidPass(nw) || bytes.Equal(nw, old) || bytes.Equal(nw, m.PrivPass):
		must = mEither
	}
	x.verdict(op, must, err, "C02/wrong-pubpass-accepted", "", "old public passphrase is the current one")
	if err == nil {
		m.OldPub = append(m.OldPub, m.PubPass)
		m.PubPass = append([]byte{}, nw...)
		if x.needles != nil {
			x.needles.addPass(nw, "pubpass")
			x.needles.refresh(x)
		}
	}
	return res
}

func (x *zzExec) doDelete(op zzOp, w *zzWallet, m *zzMW) zzRes {
	id, ok := m.slot(op.Slot)
	pass := x.pass(m, op.P1, nil)
	var done bool
	var err error
	o := x.e.call(func() { done, err = w.kmc.DeleteKeystore(id, append([]byte{}, pass...)) })
	res := zzRes{o: o, err: err}
	if x.abnormal(o) {
		return res
	}
	must := mSucceed
	why := "keystore exists and the passphrase is current"
	switch {
	case !ok:
		must = mFail
	case !bytes.Equal(pass, m.PrivPass):
		must, why = mFail, "the passphrase is not the current private passphrase"
	}
	x.verdict(op, must, err, "C03/wrong-passphrase-accepted", "", why)
	if err == nil && !done {
		x.fail("C02", "delete-reports-false/DeleteKeystore", "DeleteKeystore returned (false, nil)")
	}
	if err == nil && ok {
		m.remove(id)
		if len(m.KS) == 0 {
			m.OldPriv = append(m.OldPriv, m.PrivPass)
			m.PrivPass = nil
		}
	}
	return res
}

func (x *zzExec) doExport(op zzOp, w *zzWallet, m *zzMW) zzRes {
	id, ok := m.slot(op.Slot)
	pass := x.pass(m, op.P1, nil)
	var data []byte
	var err error
	o := x.e.call(func() { data, err = w.kmc.ExportKeystore(id, append([]byte{}, pass...)) })
	res := zzRes{o: o, err: err}
	if x.abnormal(o) {
		return res
	}
	must := mSucceed
	why := "keystore exists and the passphrase is current"
	switch {
	case !ok:
		must = mFail
	case !bytes.Equal(pass, m.PrivPass):
		must, why = mFail, "the passphrase is not the current private passphrase"
	}
	x.verdict(op, must, err, "C03/wrong-passphrase-accepted", "", why)
	if err == nil && ok {
		x.exports = append(x.exports, zzExport{Data: append([]byte{}, data...), KS: m.KS[id].clone(), Pass: append([]byte{}, m.PrivPass...), From: op.W})
		res.note = fmt.Sprintf("file#%d %dB", len(x.exports)-1, len(data))
		if x.needles != nil {
			x.needles.scan(x, "export", data, "export file of "+id)
		}
	}
	return res
}

// corruption kinds of an exported file: 1-3 secret-bearing fields, 4 structural, 5-9 fields the
// file does not authenticate
var zzCorruptNames = [...]string{"none", "masterHDPrivKeyEnc", "privParams", "cryptoKeyPrivEnc", "json-structure", "remark",
	"hdPath.ExternalChildNum", "hdPath.InternalChildNum", "hdPath.Account", "unread-field"}

func zzCorrupt(data []byte, kind, arg int) ([]byte, string) {
	if kind == 4 {
		out := append([]byte{}, data...)
		switch arg % 3 {
		case 0:
			return out[:len(out)*(arg%7+1)/9], "truncated"
		case 1:
			// damage a structural character (never a letter or digit, whose change may be harmless)
			for i := 0; i < len(out); i++ {
				p := (arg*37 + i) % len(out)
				if out[p] == '{' || out[p] == ':' || out[p] == '}' {
					out[p] = ' '
					return out, "structural character removed"
				}
			}
			return out[:len(out)/2], "truncated"
		default:
			return append([]byte("x"), out...), "prefix garbage"
		}
	}
	var doc map[string]interface{}
	if err := json.Unmarshal(data, &doc); err != nil {
		return data, "unparsable"
	}
	crypto, _ := doc["crypto"].(map[string]interface{})
	hd, _ := doc["hdPath"].(map[string]interface{})
	how := ""
	hexField := func(name string) {
		s, _ := crypto[name].(string)
		switch arg % 5 {
		case 0, 1:
			if len(s) > 0 {
				p := (arg * 13) % len(s)
				c := s[p]
				n := byte('0')
				if c == '0' {
					n = 'f'
				}
				s = s[:p] + string(n) + s[p+1:]
			}
			how = "hex digit changed"
		case 2:
			if len(s) >= 2 {
				s = s[:len(s)-2]
			}
			how = "last byte dropped"
		case 3:
			delete(crypto, name)
			how = "field deleted"
			return
		case 4:
			if len(s) > 0 {
				s = "zz" + s[2:]
			}
			how = "non-hex characters"
		}
		crypto[name] = s
	}
	bump := func(name string) {
		v, _ := hd[name].(float64)
		d := float64(arg%4 + 1)
		if arg%2 == 0 && v >= d {
			hd[name] = v - d
			how = fmt.Sprintf("-%d", int(d))
		} else {
			hd[name] = v + d
			how = fmt.Sprintf("+%d", int(d))
		}
	}
	switch kind {
	case 1:
		hexField("masterHDPrivKeyEnc")
	case 2:
		hexField("privParams")
	case 3:
		hexField("cryptoKeyPrivEnc")
	case 5:
		r, _ := doc["remark"].(string)
		doc["remark"] = r + "-tampered"
		how = "suffix added"
	case 6:
		bump("ExternalChildNum")
	case 7:
		bump("InternalChildNum")
	case 8:
		hd["Account"] = float64(1)
		how = "0 -> 1"
	case 9:
		switch arg % 6 {
		case 0:
			crypto["cipher"] = "AES"
			how = "cipher"
		case 1:
			crypto["kdf"] = "pbkdf2"
			how = "kdf"
		case 2:
			s, _ := crypto["pubParams"].(string)
			if len(s) > 4 {
				crypto["pubParams"] = s[:len(s)-4] + "0000"
			}
			how = "pubParams"
		case 3:
			s, _ := crypto["cryptoKeyPubEnc"].(string)
			if len(s) > 4 {
				crypto["cryptoKeyPubEnc"] = s[:len(s)-4] + "0000"
			}
			how = "cryptoKeyPubEnc"
		case 4:
			hd["Purpose"] = float64(45)
			how = "hdPath.Purpose"
		case 5:
			hd["Coin"] = float64(2)
			how = "hdPath.Coin"
		}
	}
	out, _ := json.Marshal(doc)
	return out, how
}

func (x *zzExec) doImport(op zzOp, w *zzWallet, m *zzMW) zzRes {
	var ex *zzExport
	data := []byte(`{"remark":"","crypto":{},"hdPath":{}}`)
	if len(x.exports) > 0 {
		ex = &x.exports[op.Export%len(x.exports)]
		data = ex.Data
	}
	how := ""
	corrupt := op.Corrupt
	if ex == nil {
		corrupt = 0
	}
	if corrupt != 0 {
		var nd []byte
		nd, how = zzCorrupt(data, corrupt, op.CorrArg)
		if bytes.Equal(nd, data) {
			corrupt = 0
		}
		data = nd
	}
	old := x.pass(m, op.P1, ex)
	nw := x.pass(m, op.P2, ex)
	eff := nw
	if len(eff) == 0 {
		eff = old
	}
	var id, remark string
	var err error
	o := x.e.call(func() {
		id, remark, err = w.kmc.ImportKeystore(append([]byte{}, data...), append([]byte{}, old...), append([]byte{}, nw...))
	})
	res := zzRes{o: o, err: err}
	if corrupt != 0 {
		res.note = fmt.Sprintf("[%s: %s]", zzCorruptNames[corrupt], how)
	}
	if x.abnormal(o) {
		return res
	}
	must, why := mSucceed, "untampered file, passphrase in force at export, keystore not present"
	acceptTag := "C01/rejected-case-accepted"
	switch {
	case ex == nil:
		must = mEither
	case corrupt != 0:
		must, why = mFail, "the file was tampered with ("+zzCorruptNames[corrupt]+": "+how+")"
		acceptTag = "C01/tamper-accepted:" + zzCorruptNames[corrupt]
	case !bytes.Equal(old, ex.Pass):
		must, why = mFail, "the passphrase is not the one in force at export"
		acceptTag = "C01/wrong-passphrase-accepted"
	case m.KS[ex.KS.ID] != nil:
		must, why = mFail, "the keystore is already present"
		acceptTag = "C01/duplicate-accepted"
	case len(m.KS) > 0 && !bytes.Equal(eff, m.PrivPass):
		must, why = mFail, "the wallet already has keystores under a different private passphrase"
		acceptTag = "C03/second-passphrase-accepted"
	case !zzValidPass(eff) || bytes.Equal(eff, m.PubPass):
		must = mEither
	}
	x.verdict(op, must, err, acceptTag, "C01/unexpected-failure", why)
	if err != nil {
		return res
	}
	// accepted: the wallet now has this keystore; compare it with the export-time image
	snap := zzTakeSnap(w.kmc)
	ks := snap.find(id)
	if ks == nil {
		x.fail("C01", "import-not-visible/ImportKeystore", "import returned id %s but the wallet does not list it", id)
		return res
	}
	if must == mSucceed {
		if id != ex.KS.ID {
			x.fail("C01", "identity-changed/ImportKeystore", "imported keystore id %s, exported %s", id, ex.KS.ID)
		}
		if remark != ex.KS.Remark || ks.Remark != ex.KS.Remark {
			x.fail("C01", "remark-changed/ImportKeystore", "imported remark %q/%q, exported %q", remark, ks.Remark, ex.KS.Remark)
		}
		tmp := &zzMW{KS: map[string]*zzMK{ex.KS.ID: ex.KS}}
		one := &zzSnap{KS: []zzKSnap{*ks}}
		if d := zzDiff(one.Render(), tmp.Render()); d != "" {
			x.fail("C01", "keys-changed/ImportKeystore", "imported keystore differs from the exported one: %s", d)
		}
	}
	// follow the implementation (also after an accepted tampered file, so that the run can go on)
	nk := &zzMK{ID: id, Remark: ks.Remark, SeedIdx: -3, Keys: map[string]zzKey{}, NextExt: ks.NextExt, NextInt: ks.NextInt}
	nk.Tainted = must != mSucceed
	// an export is a snapshot: keys issued after it are legitimately forgotten by an import
	for _, old := range m.Issued {
		if old.KS == id {
			found := false
			for _, a := range ks.Addrs {
				if a.Pub == old.Pub {
					found = true
				}
			}
			if !found {
				nk.Regressed = true
				if must == mSucceed && ex != nil {
					if _, inExport := ex.KS.Keys[fmt.Sprintf("%d/%d", old.Branch, old.Index)]; inExport {
						x.fail("C06", "ordinal-lost-after-import/ImportKeystore", "key %d/%d (%s) was issued before the export, but the imported keystore does not know it", old.Branch, old.Index, old.Pub)
						x.fail("C05", "issued-key-lost-after-import/ImportKeystore", "key %d/%d (%s) was issued before the export, but the imported keystore does not hold it (it can no longer sign)", old.Branch, old.Index, old.Pub)
					}
				}
			}
		}
	}
	if ex != nil && id == ex.KS.ID {
		nk.SeedIdx = ex.KS.SeedIdx
	}
	for _, a := range ks.Addrs {
		nk.Keys[fmt.Sprintf("%d/%d", a.Branch, a.Index)] = zzKey{KS: id, Branch: a.Branch, Index: a.Index, Pub: a.Pub, Addr: a.Addr}
	}
	if len(m.KS) == 0 {
		m.PrivPass = append([]byte{}, eff...)
		if x.needles != nil {
			x.needles.addPass(eff, "privpass")
		}
	}
	if _, dup := m.KS[id]; !dup {
		m.Order = append(m.Order, id)
	}
	m.KS[id] = nk
	for _, k := range nk.Keys {
		known := false
		for _, old := range m.Issued {
			if old.Pub == k.Pub {
				known = true
			}
		}
		if !known {
			m.Issued = append(m.Issued, k)
		}
	}
	if x.needles != nil && ex != nil && ex.KS.SeedIdx >= -1 {
		x.needles.refresh(x)
	}
	// C01: after unlocking, every one of those keys can sign
	if (x.focus == "C01" || x.focus == "C05") && must == mSucceed {
		x.signAll(op, w, m, nk)
	}
	res.note += " " + id
	return res
}

// signAll unlocks (if needed), signs with every key of keystore k, verifies, and restores the lock state.
func (x *zzExec) signAll(op zzOp, w *zzWallet, m *zzMW, k *zzMK) {
	wasLocked := m.Locked
	if wasLocked {
		var err error
		o := x.e.call(func() { err = w.kmc.Unlock(append([]byte{}, m.PrivPass...)) })
		if x.abnormal(o) || err != nil {
			x.fail("C01", "cannot-unlock-after-import/ImportKeystore", "Unlock with the wallet's passphrase after import: %v %v", err, o.PanicVal)
			return
		}
	}
	digest := wire.HashH([]byte("c01-sign-all"))
	keys := make([]string, 0, len(k.Keys))
	for n := range k.Keys {
		keys = append(keys, n)
	}
	sort.Strings(keys)
	for _, n := range keys {
		key := k.Keys[n]
		pb, _ := hex.DecodeString(key.Pub)
		pub, err := pocec.ParsePubKey(pb, pocec.S256())
		if err != nil {
			continue
		}
		var sig *pocec.Signature
		o := x.e.call(func() { sig, err = w.kmc.SignHash(pub, digest[:]) })
		if x.abnormal(o) || err != nil || sig == nil {
			x.fail("C01", "imported-key-cannot-sign/ImportKeystore", "key %s of imported keystore cannot sign: %v", n, err)
			x.fail("C05", "imported-key-cannot-sign/ImportKeystore", "key %s of imported keystore cannot sign: %v", n, err)
			continue
		}
		if !sig.Verify(digest[:], pub) {
			x.fail("C01", "imported-key-bad-signature/ImportKeystore", "signature of imported key %s does not verify under its public key", n)
			x.fail("C05", "imported-key-bad-signature/ImportKeystore", "signature of imported key %s does not verify under its public key", n)
		}
	}
	if wasLocked {
		x.e.call(func() { w.kmc.Lock() })
	}
}

func (x *zzExec) doUnlock(op zzOp, w *zzWallet, m *zzMW) zzRes {
	pass := x.pass(m, op.P1, nil)
	var err error
	o := x.e.call(func() { err = w.kmc.Unlock(append([]byte{}, pass...)) })
	res := zzRes{o: o, err: err}
	if x.abnormal(o) {
		return res
	}
	must := mSucceed
	switch {
	case len(m.KS) == 0:
		must = mEither
	case !bytes.Equal(pass, m.PrivPass):
		must = mFail
	case !m.Locked:
		must = mEither // no property speaks about unlocking an already unlocked wallet with the right passphrase
	}
	x.verdict(op, must, err, "C03/wrong-passphrase-accepted", "", "the passphrase is the current private passphrase")
	if err == nil {
		m.Locked = false
	}
	return res
}

func (x *zzExec) pickKey(op zzOp, m *zzMW) (zzKey, bool) {
	if op.Key < 0 || len(m.Issued) == 0 {
		// a key no wallet of this run owns
		b := sim.DetBytes("foreignkey", uint64(op.Digest), 32)
		_, pub := pocec.PrivKeyFromBytes(pocec.S256(), b)
		return zzKey{Pub: hex.EncodeToString(pub.SerializeCompressed())}, false
	}
	k := m.Issued[op.Key%len(m.Issued)]
	ks := m.KS[k.KS]
	if ks == nil {
		return k, false
	}
	cur, ok := ks.Keys[fmt.Sprintf("%d/%d", k.Branch, k.Index)]
	if ks.Tainted || ks.Regressed {
		// the keystore came from a tampered file the importer accepted (known finding) or from an
		// older export: follow what the wallet holds
		return k, ok && cur.Pub == k.Pub
	}
	// a key the wallet issued for a keystore it still holds is owned
	return k, true
}

func (x *zzExec) doSign(op zzOp, w *zzWallet, m *zzMW) zzRes {
	key, owned := x.pickKey(op, m)
	pb, _ := hex.DecodeString(key.Pub)
	pub, perr := pocec.ParsePubKey(pb, pocec.S256())
	if perr != nil {
		return zzRes{note: "unparsable key"}
	}
	msg := sim.DetBytes("msg", uint64(op.Digest), 20+op.Digest)
	digest := wire.HashH(msg)
	var sig *pocec.Signature
	var err error
	hash := digest[:]
	o := x.e.call(func() {
		switch op.MsgKind {
		case 0:
			sig, err = w.kmc.SignHash(pub, hash)
		case 1:
			sig, err = w.kmc.SignMessage(pub, msg)
		default:
			sig, err = w.kmc.SignHash(pub, hash[:31])
		}
	})
	res := zzRes{o: o, err: err, note: fmt.Sprintf("key %s %d/%d owned=%v locked=%v", zzShort(key.KS), key.Branch, key.Index, owned, m.Locked)}
	if x.abnormal(o) {
		return res
	}
	switch {
	case op.MsgKind == 2:
		if err == nil {
			x.fail("C05", "bad-digest-signed/Sign", "a 31-byte digest was signed")
		}
	case m.Locked:
		if err == nil {
			x.fail("C03", "signed-while-locked/Sign", "%s succeeded while the wallet is locked", op)
			x.fail("C05", "signed-while-locked/Sign", "%s succeeded while the wallet is locked", op)
		}
	case !owned:
		if err == nil {
			x.fail("C05", "signed-for-unowned-key/Sign", "%s succeeded for a key the wallet does not own", op)
		}
	default:
		if err != nil || sig == nil {
			x.fail("C05", "cannot-sign/Sign", "wallet is unlocked and owns key %s %d/%d (%s) but signing failed: %v", zzShort(key.KS), key.Branch, key.Index, key.Pub, err)
			return res
		}
		if !sig.Verify(hash, pub) {
			x.fail("C05", "signature-does-not-verify/Sign", "signature for key %s %d/%d does not verify under %s", zzShort(key.KS), key.Branch, key.Index, key.Pub)
		}
		// and under no other issued key
		for _, other := range m.Issued {
			if other.Pub == key.Pub {
				continue
			}
			ob, _ := hex.DecodeString(other.Pub)
			if op2, e2 := pocec.ParsePubKey(ob, pocec.S256()); e2 == nil && sig.Verify(hash, op2) {
				x.fail("C05", "signature-verifies-under-other-key/Sign", "signature requested for %s verifies under %s", key.Pub, other.Pub)
			}
			break
		}
	}
	return res
}

func zzShort(id string) string {
	if len(id) > 10 {
		return id[:10]
	}
	return id
}

func (x *zzExec) doVerify(op zzOp, w *zzWallet, m *zzMW) zzRes {
	key, owned := x.pickKey(op, m)
	pb, _ := hex.DecodeString(key.Pub)
	pub, perr := pocec.ParsePubKey(pb, pocec.S256())
	if perr != nil || m.Locked || !owned {
		return zzRes{note: "skipped"}
	}
	digest := wire.HashH(sim.DetBytes("msg", uint64(op.Digest), 24))
	var sig *pocec.Signature
	var err error
	var ok bool
	o := x.e.call(func() {
		sig, err = w.kmc.SignHash(pub, digest[:])
		if err == nil {
			ok, err = w.kmc.VerifySig(sig, digest[:], pub)
		}
	})
	res := zzRes{o: o, err: err}
	if x.abnormal(o) {
		return res
	}
	if err != nil || !ok {
		x.fail("C05", "verifysig-rejects-own-signature/VerifySig", "VerifySig(own signature) = %v, %v", ok, err)
	}
	return res
}

func (x *zzExec) doLookup(op zzOp, w *zzWallet, m *zzMW) zzRes {
	key, owned := x.pickKey(op, m)
	pb, _ := hex.DecodeString(key.Pub)
	pub, perr := pocec.ParsePubKey(pb, pocec.S256())
	if perr != nil {
		return zzRes{note: "unparsable key"}
	}
	var ord uint32
	var ok bool
	var addr string
	var err error
	o := x.e.call(func() {
		ord, ok = w.kmc.GetPublicKeyOrdinal(pub)
		addr, err = w.kmc.GetAddressByPubKey(pub)
	})
	res := zzRes{o: o, note: fmt.Sprintf("ord=%d ok=%v owned=%v", ord, ok, owned)}
	if x.abnormal(o) {
		return res
	}
	if owned {
		if !ok || ord != key.Index {
			x.fail("C06", "ordinal-lookup/Lookup", "GetPublicKeyOrdinal(%s %d/%d) = (%d,%v)", zzShort(key.KS), key.Branch, key.Index, ord, ok)
		}
		if err != nil || addr != key.Addr {
			x.fail("C06", "address-lookup/Lookup", "GetAddressByPubKey(%s %d/%d) = (%q,%v), want %q", zzShort(key.KS), key.Branch, key.Index, addr, err, key.Addr)
		}
	} else {
		if ok {
			x.fail("C06", "ordinal-for-unowned-key/Lookup", "GetPublicKeyOrdinal returned (%d,true) for a key the wallet does not own", ord)
		}
		if err == nil {
			x.fail("C05", "address-for-unowned-key/Lookup", "GetAddressByPubKey succeeded for a key the wallet does not own")
		}
	}
	return res
}

// zzDump is the logical content of a wallet store (every key/value of the underlying leveldb).
func zzDump(store walletdb.DB) string {
	l, ok := store.(*ldbpkg.LevelDB)
	if !ok {
		return "?"
	}
	h := fnv.New64a()
	it := l.LDb.NewIterator(nil, nil)
	n := 0
	for it.Next() {
		h.Write(it.Key())
		h.Write([]byte{0})
		h.Write(it.Value())
		h.Write([]byte{1})
		n++
	}
	it.Release()
	return fmt.Sprintf("%d:%016x", n, h.Sum64())
}

func (x *zzExec) doRestart(op zzOp, w *zzWallet, m *zzMW) zzRes {
	pass := x.pass(m, op.P1, nil)
	before := zzTakeSnap(w.kmc).Render()
	dumpBefore := zzDump(w.raw)
	if err := x.e.closeWallet(w); err != nil {
		x.fail("C02", "close-fails/Restart", "closing the store failed: %v", err)
	}
	must := mSucceed
	switch {
	case len(m.KS) == 0:
		must = mEither
	case !bytes.Equal(pass, m.PubPass):
		must = mFail
	}
	err := x.e.open(w, pass)
	res := zzRes{err: err}
	x.verdict(op, must, err, "C02/wrong-pubpass-opens", "C02/reopen-fails", "the public passphrase is the current one")
	if err != nil {
		// the failed attempt must not have altered the store
		if st, e2 := walletdb.OpenDB("leveldb", w.path); e2 == nil {
			if d := zzDump(st); d != dumpBefore {
				x.fail("C02", "failed-open-alters-store/Restart", "store content changed by a failed open: %s -> %s", dumpBefore, d)
			}
			st.Close()
		} else {
			x.fail("C02", "store-unopenable/Restart", "store does not open after a failed wallet open: %v", e2)
		}
		if e3 := x.e.open(w, m.PubPass); e3 != nil {
			x.fail("C02", "reopen-fails/Restart", "reopening with the current public passphrase failed: %v", e3)
			x.stopped = true
			return res
		}
	} else if len(m.KS) == 0 {
		m.PubPass = append([]byte{}, pass...)
	}
	m.Locked = true
	after := zzTakeSnap(w.kmc).Render()
	if d := zzDiff(after, before); d != "" {
		x.fail("C02", "restart-changes-state/Restart", "reopened wallet differs from the running instance: %s", d)
	}
	// passphrase behaviour after reopen: superseded private passphrases do not unlock
	if x.focus == "C03" || x.focus == "C02" {
		x.checkUnlockBehaviour(w, m)
	}
	return res
}

// checkUnlockBehaviour (wallet is locked): every superseded passphrase and the public one are
// refused, then the state is restored.
func (x *zzExec) checkUnlockBehaviour(w *zzWallet, m *zzMW) {
	if len(m.KS) == 0 || !m.Locked {
		return
	}
	cands := append([][]byte{}, m.OldPriv...)
	cands = append(cands, m.PubPass)
	for _, c := range cands {
		if bytes.Equal(c, m.PrivPass) || len(c) == 0 {
			continue
		}
		var err error
		o := x.e.call(func() { err = w.kmc.Unlock(append([]byte{}, c...)) })
		if x.abnormal(o) {
			return
		}
		if err == nil {
			x.fail("C03", "superseded-passphrase-unlocks/Restart", "a passphrase that is not the current private passphrase unlocked the wallet after restart")
			x.e.call(func() { w.kmc.Lock() })
		}
	}
}

// ---------------------------------------------------------------------------------------------
// after-every-operation invariants

func (x *zzExec) postChecks(op zzOp) {
	for i, w := range x.e.w {
		if w.kmc == nil {
			continue
		}
		m := x.m[i]
		snap := zzTakeSnap(w.kmc)
		if d := zzDiff(snap.Render(), m.Render()); d != "" {
			x.fail("C02", "state-vs-acknowledged/"+x.opName, "%s after %s differs from what was acknowledged: %s", w.name, op, d)
		}
		if snap.Locked != m.Locked {
			x.fail("C03", "lock-state/"+x.opName, "%s IsLocked=%v after %s, expected %v", w.name, snap.Locked, op, m.Locked)
		}
		x.checkSecrets(op, w, m, snap)
	}
	if x.scanC04 {
		x.needles.scanAll(x, op)
	}
}

// checkSecrets: C03's in-memory invariants, by in-package inspection.
func (x *zzExec) checkSecrets(op zzOp, w *zzWallet, m *zzMW, snap *zzSnap) {
	if x.secretsBroken {
		return // already reported at the operation that introduced it
	}
	n0 := x.nC03
	defer func() {
		if x.nC03 > n0 {
			x.secretsBroken = true
		}
	}()
	for _, am := range w.kmc.GetManagedAddrManager() {
		id := zzShort(am.keystoreName)
		if m.Locked {
			if am.unlocked {
				x.fail("C03", "locked-keystore-unlocked/"+x.opName, "wallet locked but keystore %s is unlocked", id)
			}
			for _, ma := range am.addrs {
				if ma.privKey != nil {
					x.fail("C03", "locked-holds-private-key/"+x.opName, "wallet locked but address %d/%d of %s holds a private key", ma.derivationPath.Branch, ma.derivationPath.Index, id)
					break
				}
			}
			if am.acctInfo.acctKeyPriv != nil || am.branchInfo.externalBranchPriv != nil || am.branchInfo.internalBranchPriv != nil {
				x.fail("C03", "locked-holds-extended-key/"+x.opName, "wallet locked but keystore %s holds an account/branch private key", id)
			}
			// a live key-decrypting key: the in-memory master key still opens the private crypto key
			if am.masterKeyPriv != nil && am.masterKeyPriv.Key != nil {
				if pt, err := am.masterKeyPriv.Decrypt(am.cryptoKeyPrivEncrypted); err == nil {
					x.fail("C03", "locked-holds-master-key/"+x.opName, "wallet locked but keystore %s still holds the scrypt-derived master key (it decrypts the private crypto key, %d bytes)", id, len(pt))
				}
			}
			if am.cryptoKeyPriv != nil {
				if _, err := am.cryptoKeyPriv.Decrypt(am.acctInfo.acctKeyEncrypted); err == nil {
					x.fail("C03", "locked-holds-crypto-key/"+x.opName, "wallet locked but keystore %s still holds the private crypto key", id)
				}
			}
			if len(m.PrivPass) > 0 {
				salted := append(append([]byte{}, am.privPassphraseSalt[:]...), m.PrivPass...)
				if sha512.Sum512(salted) == am.hashedPrivPassphrase {
					x.fail("C03", "locked-holds-passphrase-hash/"+x.opName, "wallet locked but keystore %s holds the salted hash of the current passphrase", id)
				}
			}
		} else {
			if !am.unlocked {
				x.fail("C03", "unlocked-wallet-locked-keystore/"+x.opName, "wallet unlocked but keystore %s is locked (unlocking is all-or-nothing)", id)
				continue
			}
			for _, ma := range am.addrs {
				if ma.privKey == nil {
					// keys issued while unlocked carry their private key; keys issued... all must after unlock
					x.fail("C03", "unlocked-missing-private-key/"+x.opName, "wallet unlocked but address %d/%d of %s has no private key", ma.derivationPath.Branch, ma.derivationPath.Index, id)
					break
				}
				pk := (*pocec.PublicKey)(&ma.privKey.PublicKey)
				if !bytes.Equal(pk.SerializeCompressed(), ma.pubKey.SerializeCompressed()) {
					x.fail("C05", "private-key-mismatch/"+x.opName, "address %d/%d of %s holds a private key that does not match its public key", ma.derivationPath.Branch, ma.derivationPath.Index, id)
					break
				}
			}
		}
	}
}
