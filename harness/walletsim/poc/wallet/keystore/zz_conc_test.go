//go:build go1.23

package keystore

// C14: the wallet API under concurrent use. Token engine (sim/vtok) in a -race build: 2-4 client
// goroutines run strictly one at a time, the tape picks who runs at every lock operation and
// storage call of the rewritten keystore; the hand-off is invisible to the race detector, which
// therefore sees exactly the synchronisation the wallet itself performs. Oracles: race reports
// whose racing access lies in repository code; the recorded call/return history is linearizable
// with respect to a small sequential model (porcupine); no panic, no deadlock; the state read
// back sequentially at the end and after a restart is part of the same history.

import (
	"bytes"
	"encoding/hex"
	"encoding/json"
	"fmt"
	"os"
	"path/filepath"
	"regexp"
	"sort"
	"strings"
	"time"

	"github.com/anishathalye/porcupine"
	"github.com/massnetorg/mass-core/pocec"
	"github.com/massnetorg/mass-core/wire"
	"massnet.org/mass/config"
	walletdb "massnet.org/mass/poc/wallet/db"
	"verif/sim"
	"verif/sim/vsim"
	"verif/sim/vsync"
	"verif/sim/vtok"
)

// ---------------------------------------------------------------------------------------------
// storage gate: goleveldb admits one write transaction at a time and blocks the others on a
// channel the engine cannot see; the gate takes that wait to a lock the engine knows

type zzGateDB struct {
	walletdb.DB
	gate vsync.Mutex
}

type zzGateTx struct {
	walletdb.DBTransaction
	g    *zzGateDB
	done bool
}

func (g *zzGateDB) BeginTx() (walletdb.DBTransaction, error) {
	vsim.Yield("storage BeginTx")
	g.gate.Lock()
	tx, err := g.DB.BeginTx()
	if err != nil {
		g.gate.Unlock()
		return nil, err
	}
	return &zzGateTx{DBTransaction: tx, g: g}, nil
}

func (g *zzGateDB) BeginReadTx() (walletdb.ReadTransaction, error) {
	vsim.Yield("storage BeginReadTx")
	return g.DB.BeginReadTx()
}

func (t *zzGateTx) release() {
	if !t.done {
		t.done = true
		t.g.gate.Unlock()
	}
}

func (t *zzGateTx) Commit() error {
	vsim.Yield("storage Commit")
	err := t.DBTransaction.Commit()
	t.release()
	return err
}

func (t *zzGateTx) Rollback() error {
	err := t.DBTransaction.Rollback()
	t.release()
	return err
}

// ---------------------------------------------------------------------------------------------
// operations, history

const (
	cGen = iota
	cNext
	cSign
	cOrdinal
	cCount
	cSetRemark
	cGetRemark
	cExport
	cLock
	cUnlock
	cIsLocked
	cList
	cRestart // sequential only (end of the history)
	cKinds
)

var zzCNames = [...]string{"GenerateNewPublicKey", "NextAddresses", "Sign", "GetPublicKeyOrdinal", "CountAddresses", "ChangeRemark", "Remarks",
	"ExportKeystore", "Lock", "Unlock", "IsLocked", "ListKeystoreNames", "restart"}

type zzCIn struct {
	Kind     int
	Internal bool
	N        int
	Branch   int // Sign / Ordinal: which key of the reference chains
	Index    int
	Remark   string
	Right    bool // Unlock / Export: the right passphrase
	MsgKind  int
}

type zzCOut struct {
	Err      bool
	ErrText  string
	First    int // Gen / Next: index of the first key returned (-1 = not a key of the reference chain)
	Count    int
	Ord      int
	Consec   bool // Next: the returned keys are consecutive on their branch
	Verified bool
	Found    bool
	Ext, Int int
	Remark   string
	Locked   bool
	Panic    string
}

func (in zzCIn) String() string {
	switch in.Kind {
	case cNext:
		return fmt.Sprintf("NextAddresses(internal=%v, %d)", in.Internal, in.N)
	case cSign:
		return fmt.Sprintf("Sign(key %d/%d, kind %d)", in.Branch, in.Index, in.MsgKind)
	case cOrdinal:
		return fmt.Sprintf("GetPublicKeyOrdinal(key %d/%d)", in.Branch, in.Index)
	case cCount:
		return [...]string{"CountAddresses()", "ListAddresses()", "ManagedAddresses()"}[in.N]
	case cSetRemark:
		return fmt.Sprintf("ChangeRemark(%q)", in.Remark)
	case cExport, cUnlock:
		return fmt.Sprintf("%s(right passphrase=%v)", zzCNames[in.Kind], in.Right)
	}
	return zzCNames[in.Kind] + "()"
}

func (o zzCOut) describe(in zzCIn) string {
	if o.Panic != "" {
		return "PANIC " + o.Panic
	}
	e := ""
	if o.Err {
		e = " err=" + o.ErrText
	}
	switch in.Kind {
	case cGen:
		return fmt.Sprintf("key 0/%d ordinal %d%s", o.First, o.Ord, e)
	case cNext:
		return fmt.Sprintf("%d keys from %d (consecutive=%v)%s", o.Count, o.First, o.Consec, e)
	case cSign:
		return fmt.Sprintf("verifies=%v%s", o.Verified, e)
	case cOrdinal:
		return fmt.Sprintf("found=%v ordinal=%d", o.Found, o.Ord)
	case cCount:
		if in.N != 0 {
			return fmt.Sprintf("%d distinct addresses listed", o.Ext)
		}
		return fmt.Sprintf("external=%d internal=%d", o.Ext, o.Int)
	case cGetRemark:
		return fmt.Sprintf("%q", o.Remark)
	case cExport:
		return fmt.Sprintf("remark=%q external=%d internal=%d%s", o.Remark, o.Ext, o.Int, e)
	case cIsLocked:
		return fmt.Sprintf("%v", o.Locked)
	case cList:
		return fmt.Sprintf("%d keystores", o.Count)
	case cRestart:
		return "reopened" + e
	}
	return "done" + e
}

// zzCState is the sequential model: one keystore.
type zzCState struct {
	Unlocked bool
	Remark   string
	Next     [2]int
}

func zzCStep(st zzCState, in zzCIn, out zzCOut) (bool, zzCState) {
	if out.Panic != "" {
		return false, st
	}
	b := 0
	if in.Internal {
		b = 1
	}
	switch in.Kind {
	case cGen:
		ok := !out.Err && out.First == st.Next[0] && out.Ord == st.Next[0]
		st.Next[0]++
		return ok, st
	case cNext:
		ok := !out.Err && out.Count == in.N && out.Consec && out.First == st.Next[b]
		st.Next[b] += in.N
		return ok, st
	case cSign:
		issued := in.Index < st.Next[in.Branch]
		if in.MsgKind == 2 {
			return out.Err, st // a 31-byte digest is never signed
		}
		if issued && st.Unlocked {
			return !out.Err && out.Verified, st
		}
		return out.Err, st
	case cOrdinal:
		if in.Index < st.Next[in.Branch] {
			return out.Found && out.Ord == in.Index, st
		}
		return !out.Found, st
	case cCount:
		if in.N != 0 {
			// ListAddresses / ManagedAddresses through the handle: every issued address, once
			return out.Ext == st.Next[0]+st.Next[1], st
		}
		return out.Ext == st.Next[0] && out.Int == st.Next[1], st
	case cSetRemark:
		if out.Err {
			return false, st
		}
		st.Remark = in.Remark
		return true, st
	case cGetRemark:
		return out.Remark == st.Remark, st
	case cExport:
		if !in.Right {
			return out.Err, st
		}
		return !out.Err && out.Remark == st.Remark && out.Ext == st.Next[0] && out.Int == st.Next[1], st
	case cLock:
		st.Unlocked = false
		return true, st
	case cUnlock:
		if !in.Right {
			return out.Err, st
		}
		if !out.Err {
			st.Unlocked = true
			return true, st
		}
		// (no property speaks about unlocking an unlocked wallet; a refusal leaves it as it was)
		return st.Unlocked, st
	case cIsLocked:
		return out.Locked == !st.Unlocked, st
	case cList:
		return out.Count == 1, st
	case cRestart:
		st.Unlocked = false
		return !out.Err, st
	}
	return false, st
}

var zzCModel = porcupine.Model{
	Init: func() interface{} { return zzCInit },
	Step: func(state, input, output interface{}) (bool, interface{}) {
		ok, st := zzCStep(state.(zzCState), input.(zzCIn), output.(zzCOut))
		return ok, st
	},
	Equal: func(a, b interface{}) bool { return a.(zzCState) == b.(zzCState) },
	DescribeOperation: func(input, output interface{}) string {
		return input.(zzCIn).String() + " -> " + output.(zzCOut).describe(input.(zzCIn))
	},
}

var zzCInit zzCState

// ---------------------------------------------------------------------------------------------

type zzConc struct {
	r      *sim.Run
	e      *zzEnv
	w      *zzWallet
	ksid   string
	priv   []byte
	pub    []byte
	ref    [2][]string          // reference chains: branch -> index -> compressed public key (hex)
	refIdx map[string][2]int    // public key -> (branch, index)
	refKey [2][]*pocec.PublicKey // parsed
	seq    int64
	hist   [vtok.MaxClients + 1][]porcupine.Operation
}

//go:norace
func (c *zzConc) stamp() int64 {
	c.seq++
	return c.seq
}

func zzRunC14(r *sim.Run) {
	if r.Config == "create" {
		zzRunC14Create(r)
		return
	}
	t := r.T
	e := zzNewEnv(r)
	defer e.shutdown()
	e.disk.StepFn = nil
	r.StepBudget = 0
	c := &zzConc{r: r, e: e, w: e.w[0], refIdx: map[string][2]int{}}
	c.pub = []byte("publicPassC14")
	c.priv = []byte("privatePassC14")
	seed := zzSeedBytes(t.Choose("seed", 4))
	nRef := 40
	// reference chains from an identical keystore in a second wallet, sequentially
	if err := c.openGated(e.w[1]); err != nil {
		sim.EngineError("reference wallet: %v", err)
	}
	refID, err := e.w[1].kmc.NewKeystore(append([]byte{}, c.priv...), seed, "ref", config.ChainParams, e.fastScrypt())
	if err != nil {
		sim.EngineError("reference keystore: %v", err)
	}
	for b := 0; b < 2; b++ {
		mas, err := e.w[1].kmc.NextAddresses(refID, b == 1, uint32(nRef))
		if err != nil || len(mas) != nRef {
			sim.EngineError("reference chain: %v", err)
		}
		c.ref[b] = make([]string, nRef)
		c.refKey[b] = make([]*pocec.PublicKey, nRef)
		for _, ma := range mas {
			ph := hex.EncodeToString(ma.pubKey.SerializeCompressed())
			i := int(ma.derivationPath.Index)
			c.ref[b][i] = ph
			c.refIdx[ph] = [2]int{b, i}
			pk, _ := pocec.ParsePubKey(ma.pubKey.SerializeCompressed(), pocec.S256())
			c.refKey[b][i] = pk
		}
	}
	e.closeWallet(e.w[1])
	// the wallet under test
	if err := c.openGated(c.w); err != nil {
		sim.EngineError("wallet: %v", err)
	}
	remark0 := "remark-0"
	c.ksid, err = c.w.kmc.NewKeystore(append([]byte{}, c.priv...), seed, remark0, config.ChainParams, e.fastScrypt())
	if err != nil {
		sim.EngineError("keystore: %v", err)
	}
	init := zzCState{Remark: remark0}
	// a sequential prefix so that lookups and signatures have something to find
	pre := t.Choose("prefix.gen", 3)
	for i := 0; i < pre; i++ {
		if _, _, err := c.w.kmc.GenerateNewPublicKey(); err != nil {
			sim.EngineError("prefix: %v", err)
		}
		init.Next[0]++
	}
	if t.Bool("prefix.unlocked", 2, 3) {
		if err := c.w.kmc.Unlock(append([]byte{}, c.priv...)); err != nil {
			sim.EngineError("prefix unlock: %v", err)
		}
		init.Unlocked = true
	}
	// NewKeystore leaves the new keystore usable or not - read it back instead of assuming
	init.Unlocked = !c.w.kmc.IsLocked()
	zzCInit = init
	// programs
	nClients := 2 + t.Choose("nclients", 3)
	progs := make([][]zzCIn, nClients)
	remarkCtr := 0
	for k := range progs {
		n := 2 + t.Choose("nops", 4)
		for i := 0; i < n; i++ {
			in := zzCIn{Kind: t.Weighted("op.kind", []int{6, 4, 5, 3, 3, 3, 2, 2, 2, 3, 2, 1})}
			switch in.Kind {
			case cNext:
				in.Internal = t.Bool("op.internal", 1, 2)
				in.N = 1 + t.Choose("op.n", 3)
			case cSign:
				in.Branch = t.Choose("op.branch", 2)
				in.Index = t.Choose("op.index", 6)
				in.MsgKind = t.Weighted("op.msgkind", []int{4, 4, 1})
			case cOrdinal:
				in.Branch = t.Choose("op.branch", 2)
				in.Index = t.Choose("op.index", 6)
			case cCount:
				in.N = t.Choose("op.listing", 3)
			case cSetRemark:
				remarkCtr++
				in.Remark = fmt.Sprintf("remark-%d", remarkCtr)
			case cExport, cUnlock:
				in.Right = t.Bool("op.right", 3, 4)
			}
			progs[k] = append(progs[k], in)
		}
	}
	for k, p := range progs {
		for _, in := range p {
			r.Event("client %d: %s", k, in)
		}
	}
	raceBefore := zzRaceLogSize()
	// run
	eng := &vtok.Engine{Choose: t.Choose, MaxSteps: 200000}
	if p := os.Getenv("VERIF_SCHEDTRACE"); p != "" {
		f, _ := os.Create(p)
		defer f.Close()
		eng.OnStep = func(cl int, site string) { fmt.Fprintf(f, "run c%d@%s\n", cl, site) }
	}
	clients := make([]func(), nClients)
	for k := range clients {
		k := k
		clients[k] = func() {
			for _, in := range progs[k] {
				vsim.Yield("client invokes " + zzCNames[in.Kind])
				c.do(k, in)
			}
		}
	}
	prevE := vsim.E
	vsim.E = eng
	vtok.Cur = eng
	eng.Run(clients)
	vtok.Cur = nil
	vsim.E = prevE
	r.Preempts += eng.Preempt
	r.Count("sched-steps", eng.Steps)
	for s, n := range eng.Sites {
		if strings.HasPrefix(s, "blocked on") {
			r.Probe("client-blocked-on-a-lock")
			continue
		}
		if strings.Contains(s, ".go:") {
			r.Count("site:"+s[strings.LastIndex(s, "/")+1:], n)
		}
	}
	if eng.Deadlocked || eng.OutOfSteps {
		what := "deadlock"
		if eng.OutOfSteps {
			what = "no-progress"
		}
		r.Fail("C14/"+what+"/clients", "the clients did not finish: parked at %v", eng.Parked())
		zzPoison = true // parked goroutines hold locks of this process for good
		return
	}
	for k, p := range eng.Panics() {
		if p != nil {
			r.Fail("C14/panic/client", "client %d panicked: %v", k, p)
		}
	}
	// the end of the history, sequentially: read everything back, restart, read again
	final := []zzCIn{{Kind: cCount}, {Kind: cGetRemark}, {Kind: cIsLocked}, {Kind: cExport, Right: true}, {Kind: cList},
		{Kind: cRestart}, {Kind: cCount}, {Kind: cGetRemark}, {Kind: cIsLocked}, {Kind: cExport, Right: true}}
	for _, in := range final {
		c.do(vtok.MaxClients, in)
	}
	// oracle 1: race reports
	for _, rep := range zzRaceReports(raceBefore) {
		if rep.sig == "" {
			r.Count("race-outside-repository", 1)
			continue
		}
		r.FailUnhashed("C14/data-race/"+rep.sig, "the race detector reports unsynchronised accesses:\n%s", rep.text)
	}
	// oracle 2: linearizability
	var ops []porcupine.Operation
	for k := range c.hist {
		ops = append(ops, c.hist[k]...)
	}
	sort.Slice(ops, func(i, j int) bool { return ops[i].Call < ops[j].Call })
	for _, op := range ops {
		r.Event("[%d..%d] client %d: %s", op.Call, op.Return, op.ClientId, zzCModel.DescribeOperation(op.Input, op.Output))
	}
	r.Ops += len(ops)
	for i := range ops {
		for j := range ops {
			a, b := ops[i], ops[j]
			if a.ClientId != b.ClientId && a.Call < b.Call && b.Call < a.Return {
				ka, kb := a.Input.(zzCIn).Kind, b.Input.(zzCIn).Kind
				r.Probe("operations-overlap")
				if (ka == cGen || ka == cNext) && (kb == cGen || kb == cNext) {
					r.Probe("two-issuances-overlap")
				}
				if (ka == cSign) != (kb == cSign) && (ka == cLock || kb == cLock || ka == cUnlock || kb == cUnlock) {
					r.Probe("sign-overlaps-lock-or-unlock")
				}
			}
		}
	}
	res, info := porcupine.CheckOperationsVerbose(zzCModel, ops, 10*time.Second)
	switch res {
	case porcupine.Illegal:
		kinds := map[string]bool{}
		// name the operations of the longest linearizable prefix's complement: the ones porcupine
		// could not place
		_ = info
		for _, op := range ops {
			if op.ClientId != vtok.MaxClients {
				kinds[zzCNames[op.Input.(zzCIn).Kind]] = true
			}
		}
		var ks []string
		for k := range kinds {
			ks = append(ks, k)
		}
		sort.Strings(ks)
		r.Fail("C14/not-linearizable/history", "no sequential order of the %d operations, consistent with their real-time order, explains the results (initial state %+v; concurrent operations: %s)",
			len(ops), zzCInit, strings.Join(ks, ", "))
	case porcupine.Unknown:
		r.Count("inconclusive:linearizability-timeout", 1)
	}
	r.State(zzHash64(fmt.Sprint(init, nClients)))
}

// zzPoison: a run left goroutines parked for good; the worker stops taking runs.
var zzPoison bool

func (c *zzConc) openGated(w *zzWallet) error {
	var store walletdb.DB
	var err error
	if _, serr := c.e.disk.Stat(w.path); serr == nil {
		store, err = walletdb.OpenDB("leveldb", w.path)
	} else {
		store, err = walletdb.CreateDB("leveldb", w.path)
	}
	if err != nil {
		return err
	}
	g := &zzGateDB{DB: store}
	kmc, err := NewKeystoreManagerForPoC(g, append([]byte{}, c.pub...), config.ChainParams)
	if err != nil {
		store.Close()
		return err
	}
	w.kmc, w.raw = kmc, store
	return nil
}

func (c *zzConc) keyIdx(pub []byte) (int, int) {
	if v, ok := c.refIdx[hex.EncodeToString(pub)]; ok {
		return v[0], v[1]
	}
	return -1, -1
}

// do executes one operation and records it (per client; the stamps come from one counter that
// only the token holder touches).
func (c *zzConc) do(client int, in zzCIn) {
	var out zzCOut
	call := c.stamp()
	func() {
		defer func() {
			if v := recover(); v != nil {
				out.Panic = fmt.Sprint(v)
			}
		}()
		out = c.exec(in)
	}()
	ret := c.stamp()
	c.hist[client] = append(c.hist[client], porcupine.Operation{ClientId: client, Input: in, Call: call, Output: out, Return: ret})
}

func (c *zzConc) exec(in zzCIn) (out zzCOut) {
	kmc := c.w.kmc
	setErr := func(err error) {
		if err != nil {
			out.Err, out.ErrText = true, err.Error()
		}
	}
	switch in.Kind {
	case cGen:
		pub, ord, err := kmc.GenerateNewPublicKey()
		setErr(err)
		out.First, out.Ord = -1, int(ord)
		if err == nil && pub != nil {
			if b, i := c.keyIdx(pub.SerializeCompressed()); b == 0 {
				out.First = i
			}
		}
	case cNext:
		mas, err := kmc.NextAddresses(c.ksid, in.Internal, uint32(in.N))
		setErr(err)
		out.First, out.Count, out.Consec = -1, len(mas), true
		want := 0
		if in.Internal {
			want = 1
		}
		for k, ma := range mas {
			b, i := c.keyIdx(ma.pubKey.SerializeCompressed())
			if k == 0 {
				out.First = i
			}
			if b != want || i != out.First+k || int(ma.derivationPath.Index) != i {
				out.Consec = false
			}
		}
	case cSign:
		pub := c.refKey[in.Branch][in.Index]
		msg := sim.DetBytes("c14msg", uint64(in.Index), 24)
		digest := wire.HashH(msg)
		var sig *pocec.Signature
		var err error
		switch in.MsgKind {
		case 0:
			sig, err = kmc.SignHash(pub, digest[:])
		case 1:
			sig, err = kmc.SignMessage(pub, msg)
		default:
			sig, err = kmc.SignHash(pub, digest[:31])
		}
		setErr(err)
		if err == nil && sig != nil {
			out.Verified = sig.Verify(digest[:], pub)
		}
	case cOrdinal:
		ord, found := kmc.GetPublicKeyOrdinal(c.refKey[in.Branch][in.Index])
		out.Ord, out.Found = int(ord), found
	case cCount:
		for _, am := range kmc.GetManagedAddrManager() {
			switch in.N {
			case 0:
				out.Ext, out.Int = am.CountAddresses()
			case 1:
				seen := map[string]bool{}
				for _, a := range am.ListAddresses() {
					seen[a] = true
				}
				out.Ext, out.Int = len(seen), -1
			default:
				seen := map[string]bool{}
				for _, ma := range am.ManagedAddresses() {
					seen[hex.EncodeToString(ma.pubKey.SerializeCompressed())] = true
				}
				out.Ext, out.Int = len(seen), -1
			}
		}
	case cSetRemark:
		setErr(kmc.ChangeRemark(c.ksid, in.Remark))
	case cGetRemark:
		for _, am := range kmc.GetManagedAddrManager() {
			out.Remark = am.Remarks()
		}
	case cExport:
		pass := c.priv
		if !in.Right {
			pass = []byte("notThePassphrase")
		}
		data, err := kmc.ExportKeystore(c.ksid, append([]byte{}, pass...))
		setErr(err)
		if err == nil {
			var ks struct {
				Remark string `json:"remark"`
				HDpath struct{ ExternalChildNum, InternalChildNum int }
			}
			dec := json.NewDecoder(bytes.NewReader(data))
			if derr := dec.Decode(&ks); derr != nil {
				out.Err, out.ErrText = true, "undecodable export: "+derr.Error()
			}
			out.Remark, out.Ext, out.Int = ks.Remark, ks.HDpath.ExternalChildNum, ks.HDpath.InternalChildNum
		}
	case cLock:
		kmc.Lock()
	case cUnlock:
		pass := c.priv
		if !in.Right {
			pass = []byte("notThePassphrase")
		}
		setErr(kmc.Unlock(append([]byte{}, pass...)))
	case cIsLocked:
		out.Locked = kmc.IsLocked()
	case cList:
		out.Count = len(kmc.ListKeystoreNames())
	case cRestart:
		c.e.closeWallet(c.w)
		setErr(c.openGated(c.w))
	}
	return out
}

// ---------------------------------------------------------------------------------------------
// race detector log

type zzRaceReport struct {
	sig  string
	text string
}

func zzRaceLogPath() string {
	dir := os.Getenv("VERIF_OUT")
	if dir == "" {
		dir = "."
	}
	return filepath.Join(dir, fmt.Sprintf("race.%d", os.Getpid()))
}

func zzRaceLogSize() int64 {
	st, err := os.Stat(zzRaceLogPath())
	if err != nil {
		return 0
	}
	return st.Size()
}

var zzFrameRe = regexp.MustCompile(`^  ([^\s(][^\n]*?)\(\)$`)

// zzRaceReports parses what the race detector wrote since offset from. The signature of a
// report names, for each of the two accesses, the innermost frame in repository code; a report
// neither of whose racing accesses is made by repository code (top frame) has no signature.
func zzRaceReports(from int64) []zzRaceReport {
	data, err := os.ReadFile(zzRaceLogPath())
	if err != nil || int64(len(data)) <= from {
		return nil
	}
	var out []zzRaceReport
	for _, blk := range strings.Split(string(data[from:]), "==================") {
		if !strings.Contains(blk, "DATA RACE") {
			continue
		}
		// the first two stacks are the two accesses
		var stacks [][]string
		var cur []string
		in := false
		for _, ln := range strings.Split(blk, "\n") {
			switch {
			case strings.HasPrefix(ln, "Read at") || strings.HasPrefix(ln, "Write at") || strings.HasPrefix(ln, "Previous ") ||
				strings.HasPrefix(ln, "Atomic") || strings.HasPrefix(ln, "Goroutine "):
				if in {
					stacks = append(stacks, cur)
				}
				cur, in = nil, !strings.HasPrefix(ln, "Goroutine ")
				if strings.HasPrefix(ln, "Goroutine ") && len(stacks) >= 2 {
					in = false
				}
			case in:
				if m := zzFrameRe.FindStringSubmatch(ln); m != nil {
					cur = append(cur, m[1])
				}
			}
		}
		if in {
			stacks = append(stacks, cur)
		}
		if len(stacks) < 2 {
			continue
		}
		isRepo := func(f string) bool {
			return strings.HasPrefix(f, "massnet.org/mass/") && !strings.Contains(f, "zzverif") && !strings.Contains(f, ".zz") && !strings.Contains(f, ".Test")
		}
		topRepo := false
		var names []string
		for _, st := range stacks[:2] {
			// the code that performs the access: the innermost frame outside the Go runtime
			for len(st) > 0 && (strings.HasPrefix(st[0], "runtime.") || strings.HasPrefix(st[0], "internal/") || strings.HasPrefix(st[0], "sync/atomic.")) {
				st = st[1:]
			}
			if len(st) > 0 && isRepo(st[0]) {
				topRepo = true
			}
			name := "?"
			for _, f := range st {
				if isRepo(f) {
					name = f[strings.LastIndex(f, "/")+1:]
					break
				}
			}
			names = append(names, name)
		}
		rep := zzRaceReport{text: strings.TrimSpace(blk)}
		if topRepo {
			sort.Strings(names)
			rep.sig = names[0] + "|" + names[1]
		}
		out = append(out, rep)
	}
	return out
}


// ---------------------------------------------------------------------------------------------
// configuration "create": concurrent NewKeystore / Unlock / listing on a wallet that starts empty

type zzKIn struct {
	Kind int // 0 NewKeystore, 1 Unlock, 2 ListKeystoreNames, 3 restart+Unlock (sequential, end)
	Pass int
	Seed int
}

type zzKOut struct {
	Err     bool
	ErrText string
	ID      string
	Count   int
	Panic   string
}

type zzKState struct {
	Pass     int    // -1 = no keystore yet
	IDs      string // sorted, comma-joined
	Unlocked bool
}

func (in zzKIn) String() string {
	switch in.Kind {
	case 0:
		return fmt.Sprintf("NewKeystore(passphrase #%d, seed #%d)", in.Pass, in.Seed)
	case 1:
		return fmt.Sprintf("Unlock(passphrase #%d)", in.Pass)
	case 2:
		return "ListKeystoreNames()"
	}
	return fmt.Sprintf("restart, Unlock(passphrase #%d)", in.Pass)
}

var zzKRefID map[int]string // seed -> keystore id (from a sequential reference wallet)
var zzKInit zzKState

func zzKHas(ids, id string) bool {
	for _, x := range strings.Split(ids, ",") {
		if x == id && x != "" {
			return true
		}
	}
	return false
}

var zzKModel = porcupine.Model{
	Init: func() interface{} { return zzKInit },
	Step: func(state, input, output interface{}) (bool, interface{}) {
		st, in, out := state.(zzKState), input.(zzKIn), output.(zzKOut)
		if out.Panic != "" {
			return false, st
		}
		switch in.Kind {
		case 0:
			id := zzKRefID[in.Seed]
			if (st.Pass >= 0 && st.Pass != in.Pass) || zzKHas(st.IDs, id) {
				return out.Err, st // another private passphrase, or the same seed again: refused
			}
			if out.Err || out.ID != id {
				return false, st
			}
			ids := append(strings.Split(st.IDs, ","), id)
			sort.Strings(ids)
			st.IDs = strings.Trim(strings.Join(ids, ","), ",")
			st.Pass = in.Pass
			return true, st
		case 1, 3:
			if in.Kind == 3 {
				st.Unlocked = false // restarted
			}
			if st.Pass < 0 || (st.Unlocked && in.Pass == st.Pass) {
				// nothing to unlock, or already unlocked with this passphrase: no property speaks about it
				if !out.Err {
					st.Unlocked = true
				}
				return true, st
			}
			if in.Pass != st.Pass {
				return out.Err, st
			}
			st.Unlocked = true
			return !out.Err, st
		case 2:
			n := 0
			if st.IDs != "" {
				n = len(strings.Split(st.IDs, ","))
			}
			return out.Count == n, st
		}
		return false, st
	},
	Equal: func(a, b interface{}) bool { return a.(zzKState) == b.(zzKState) },
	DescribeOperation: func(input, output interface{}) string {
		o := output.(zzKOut)
		e := ""
		if o.Err {
			e = " err=" + o.ErrText
		}
		return fmt.Sprintf("%s -> id=%s count=%d%s%s", input.(zzKIn), zzShort(o.ID), o.Count, e, o.Panic)
	},
}

func zzRunC14Create(r *sim.Run) {
	t := r.T
	e := zzNewEnv(r)
	defer e.shutdown()
	e.disk.StepFn = nil
	r.StepBudget = 0
	c := &zzConc{r: r, e: e, w: e.w[0], refIdx: map[string][2]int{}}
	c.pub = []byte("publicPassC14")
	passes := [][]byte{[]byte("privatePassOne"), []byte("privatePassTwo")}
	// keystore ids per seed, from a sequential reference wallet
	zzKRefID = map[int]string{}
	if err := c.openGated(e.w[1]); err != nil {
		sim.EngineError("reference wallet: %v", err)
	}
	for sd := 0; sd < 4; sd++ {
		id, err := e.w[1].kmc.NewKeystore(append([]byte{}, passes[0]...), zzSeedBytes(sd), "ref", config.ChainParams, e.fastScrypt())
		if err != nil {
			sim.EngineError("reference keystore: %v", err)
		}
		zzKRefID[sd] = id
	}
	e.closeWallet(e.w[1])
	if err := c.openGated(c.w); err != nil {
		sim.EngineError("wallet: %v", err)
	}
	zzKInit = zzKState{Pass: -1}
	if t.Bool("create.prefix", 1, 3) {
		p := t.Choose("create.prefix.pass", 2)
		if _, err := c.w.kmc.NewKeystore(append([]byte{}, passes[p]...), zzSeedBytes(3), "first", config.ChainParams, e.fastScrypt()); err != nil {
			sim.EngineError("prefix keystore: %v", err)
		}
		zzKInit = zzKState{Pass: p, IDs: zzKRefID[3]}
	}
	nClients := 2 + t.Choose("nclients", 2)
	progs := make([][]zzKIn, nClients)
	for k := range progs {
		n := 1 + t.Choose("nops", 3)
		for i := 0; i < n; i++ {
			in := zzKIn{Kind: t.Weighted("create.kind", []int{5, 2, 2})}
			in.Pass = t.Choose("create.pass", 2)
			in.Seed = t.Choose("create.seed", 3)
			progs[k] = append(progs[k], in)
			r.Event("client %d: %s", k, in)
		}
	}
	hist := make([][]porcupine.Operation, nClients+1)
	exec := func(in zzKIn) (out zzKOut) {
		defer func() {
			if v := recover(); v != nil {
				out.Panic = " PANIC " + fmt.Sprint(v)
			}
		}()
		kmc := c.w.kmc
		switch in.Kind {
		case 0:
			id, err := kmc.NewKeystore(append([]byte{}, passes[in.Pass]...), zzSeedBytes(in.Seed), fmt.Sprintf("ks-%d", in.Seed), config.ChainParams, e.fastScrypt())
			out.ID = id
			if err != nil {
				out.Err, out.ErrText = true, err.Error()
			}
		case 1:
			if err := kmc.Unlock(append([]byte{}, passes[in.Pass]...)); err != nil {
				out.Err, out.ErrText = true, err.Error()
			}
		case 2:
			out.Count = len(kmc.ListKeystoreNames())
		case 3:
			e.closeWallet(c.w)
			if err := c.openGated(c.w); err != nil {
				out.Err, out.ErrText = true, "reopen: "+err.Error()
				return
			}
			if err := c.w.kmc.Unlock(append([]byte{}, passes[in.Pass]...)); err != nil {
				out.Err, out.ErrText = true, err.Error()
			}
		}
		return
	}
	do := func(client int, in zzKIn) {
		call := c.stamp()
		out := exec(in)
		ret := c.stamp()
		hist[client] = append(hist[client], porcupine.Operation{ClientId: client, Input: in, Call: call, Output: out, Return: ret})
	}
	raceBefore := zzRaceLogSize()
	eng := &vtok.Engine{Choose: t.Choose, MaxSteps: 200000}
	clients := make([]func(), nClients)
	for k := range clients {
		k := k
		clients[k] = func() {
			for _, in := range progs[k] {
				vsim.Yield("client invokes")
				do(k, in)
			}
		}
	}
	prevE := vsim.E
	vsim.E = eng
	vtok.Cur = eng
	eng.Run(clients)
	vtok.Cur = nil
	vsim.E = prevE
	r.Preempts += eng.Preempt
	r.Count("sched-steps", eng.Steps)
	if eng.Deadlocked || eng.OutOfSteps {
		r.Fail("C14/deadlock/clients", "the clients did not finish: parked at %v", eng.Parked())
		return
	}
	for k, p := range eng.Panics() {
		if p != nil {
			r.Fail("C14/panic/client", "client %d panicked: %v", k, p)
		}
	}
	// the end of the history: both passphrases are tried after a restart - exactly the current one unlocks
	do(nClients, zzKIn{Kind: 2})
	do(nClients, zzKIn{Kind: 3, Pass: 0})
	do(nClients, zzKIn{Kind: 3, Pass: 1})
	do(nClients, zzKIn{Kind: 2})
	for _, rep := range zzRaceReports(raceBefore) {
		if rep.sig == "" {
			r.Count("race-outside-repository", 1)
			continue
		}
		r.FailUnhashed("C14/data-race/"+rep.sig, "the race detector reports unsynchronised accesses:\n%s", rep.text)
	}
	var ops []porcupine.Operation
	for k := range hist {
		ops = append(ops, hist[k]...)
	}
	sort.Slice(ops, func(i, j int) bool { return ops[i].Call < ops[j].Call })
	for _, op := range ops {
		r.Event("[%d..%d] client %d: %s", op.Call, op.Return, op.ClientId, zzKModel.DescribeOperation(op.Input, op.Output))
	}
	r.Ops += len(ops)
	switch res, _ := porcupine.CheckOperationsVerbose(zzKModel, ops, 10*time.Second); res {
	case porcupine.Illegal:
		r.Fail("C14/not-linearizable/keystore-creation", "no sequential order of the %d operations, consistent with their real-time order, explains the results (initial state %+v)", len(ops), zzKInit)
	case porcupine.Unknown:
		r.Count("inconclusive:linearizability-timeout", 1)
	}
	r.State(zzHash64(fmt.Sprint(zzKInit, nClients)))
}
