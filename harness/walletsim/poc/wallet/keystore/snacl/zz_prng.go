package snacl

import "io"

// ZZSetPRNG is added to the scratch copy only: the simulator's seam for snacl's nonce/salt source.
func ZZSetPRNG(r io.Reader) { prng = r }
