//go:build go1.23

// Package faultdb wraps the wallet's db.DB with a call-numbering, fault-injecting layer
// (DESIGN.md 2.7). It uses only the existing interface seam: the wrapper is what the harness
// hands to NewKeystoreManagerForPoC.
package faultdb

import (
	"errors"
	"fmt"
	"strings"

	walletdb "massnet.org/mass/poc/wallet/db"
	"verif/sim"
)

// ErrInjected is the storage error returned by an injected failure.
var ErrInjected = errors.New("faultdb: injected storage failure")

type Effect int

const (
	NoFault Effect = iota
	Fail            // the call returns an error (a failed Commit discards the transaction)
	CrashBefore     // the process dies before the call
	CrashAfter      // the process dies right after the call was performed
)

func (e Effect) String() string {
	return [...]string{"none", "fail", "crash-before", "crash-after"}[e]
}

// Plan: inject Effect at the Call-th storage call (0-based) after Arm() was last invoked.
type Plan struct {
	Call   int
	Effect Effect
	// OnlyKinds, if non-empty, restricts the fault to calls whose kind is listed; the Call index
	// then counts only such calls.
	OnlyKinds []string
	// UntilCommit disarms the plan once the operation's first Commit has been attempted, so that
	// a reported error implies a rolled-back transaction.
	UntilCommit bool
}

type DB struct {
	Inner walletdb.DB
	// per-operation call log
	Calls  []string
	plan   *Plan
	nmatch int
	Fired  string // site of the fired fault ("" = none)
	sawCommit bool
	// Yield, when set, is called before every storage call (scheduling point for the token engine).
	Yield func(site string)
}

func New(inner walletdb.DB) *DB { return &DB{Inner: inner} }

// Arm resets the per-operation call log and installs the plan for the next operation.
func (d *DB) Arm(p *Plan) {
	d.Calls = d.Calls[:0]
	d.plan = p
	d.nmatch = 0
	d.Fired = ""
	d.sawCommit = false
}

func (d *DB) hit(kind, where string) Effect {
	site := kind
	if where != "" {
		site = kind + "@" + where
	}
	if d.Yield != nil {
		d.Yield(site)
	}
	d.Calls = append(d.Calls, site)
	if r := sim.Cur; r != nil {
		r.Step()
	}
	p := d.plan
	if p == nil || p.Effect == NoFault || d.Fired != "" {
		return NoFault
	}
	if p.UntilCommit && d.sawCommit {
		return NoFault
	}
	if kind == "Commit" {
		d.sawCommit = true
	}
	if len(p.OnlyKinds) > 0 {
		ok := false
		for _, k := range p.OnlyKinds {
			if k == kind {
				ok = true
			}
		}
		if !ok {
			return NoFault
		}
	}
	idx := d.nmatch
	d.nmatch++
	if idx != p.Call {
		return NoFault
	}
	d.Fired = site
	if p.Effect == CrashBefore {
		panic(sim.Crash{At: "before " + site})
	}
	return p.Effect
}

func (d *DB) after(e Effect, kind, where string) {
	if e == CrashAfter {
		panic(sim.Crash{At: "after " + kind + "@" + where})
	}
}

func (d *DB) Close() error { return d.Inner.Close() }

func (d *DB) BeginTx() (walletdb.DBTransaction, error) {
	e := d.hit("BeginTx", "")
	if e == Fail {
		return nil, ErrInjected
	}
	tx, err := d.Inner.BeginTx()
	if err != nil {
		return nil, err
	}
	d.after(e, "BeginTx", "")
	return &Tx{d: d, in: tx}, nil
}

func (d *DB) BeginReadTx() (walletdb.ReadTransaction, error) {
	e := d.hit("BeginReadTx", "")
	if e == Fail {
		return nil, ErrInjected
	}
	tx, err := d.Inner.BeginReadTx()
	if err != nil {
		return nil, err
	}
	d.after(e, "BeginReadTx", "")
	return &RTx{d: d, in: tx}, nil
}

func metaPath(m walletdb.BucketMeta) string {
	if m == nil {
		return "<nil>"
	}
	p := m.Paths()
	if len(p) > 1 {
		p = p[1:]
	}
	return strings.Join(p, "/")
}

// shorten keystore ids so that sites are stable facts (ids vary per seed)
func short(where string) string {
	parts := strings.Split(where, "/")
	for i, p := range parts {
		if strings.HasPrefix(p, "ac1") && len(p) > 12 {
			parts[i] = "<ks>"
		}
	}
	return strings.Join(parts, "/")
}

type Tx struct {
	d  *DB
	in walletdb.DBTransaction
}

func (t *Tx) Commit() error {
	e := t.d.hit("Commit", "")
	if e == Fail {
		t.in.Rollback()
		return ErrInjected
	}
	err := t.in.Commit()
	if err == nil {
		t.d.after(e, "Commit", "")
	}
	return err
}

func (t *Tx) Rollback() error {
	// a rollback cannot meaningfully fail; it is recorded but never faulted
	t.d.Calls = append(t.d.Calls, "Rollback")
	return t.in.Rollback()
}

func (t *Tx) TopLevelBucket(name string) walletdb.Bucket {
	e := t.d.hit("TopLevelBucket", name)
	if e == Fail {
		return nil
	}
	b := t.in.TopLevelBucket(name)
	t.d.after(e, "TopLevelBucket", name)
	if b == nil {
		return nil
	}
	return &Bucket{d: t.d, in: b, where: name}
}

func (t *Tx) BucketNames() ([]string, error) {
	e := t.d.hit("TxBucketNames", "")
	if e == Fail {
		return nil, ErrInjected
	}
	return t.in.BucketNames()
}

func (t *Tx) FetchBucket(meta walletdb.BucketMeta) walletdb.Bucket {
	where := short(metaPath(meta))
	e := t.d.hit("FetchBucket", where)
	if e == Fail {
		return nil
	}
	b := t.in.FetchBucket(meta)
	t.d.after(e, "FetchBucket", where)
	if b == nil {
		return nil
	}
	return &Bucket{d: t.d, in: b, where: where}
}

func (t *Tx) CreateTopLevelBucket(name string) (walletdb.Bucket, error) {
	e := t.d.hit("CreateTopLevelBucket", name)
	if e == Fail {
		return nil, ErrInjected
	}
	b, err := t.in.CreateTopLevelBucket(name)
	if err != nil {
		return nil, err
	}
	t.d.after(e, "CreateTopLevelBucket", name)
	return &Bucket{d: t.d, in: b, where: name}, nil
}

func (t *Tx) DeleteTopLevelBucket(name string) error { return t.in.DeleteTopLevelBucket(name) }

type RTx struct {
	d  *DB
	in walletdb.ReadTransaction
}

func (t *RTx) TopLevelBucket(name string) walletdb.Bucket {
	e := t.d.hit("TopLevelBucket", name)
	if e == Fail {
		return nil
	}
	b := t.in.TopLevelBucket(name)
	if b == nil {
		return nil
	}
	return &Bucket{d: t.d, in: b, where: name}
}

func (t *RTx) FetchBucket(meta walletdb.BucketMeta) walletdb.Bucket {
	where := short(metaPath(meta))
	e := t.d.hit("FetchBucket", where)
	if e == Fail {
		return nil
	}
	b := t.in.FetchBucket(meta)
	if b == nil {
		return nil
	}
	return &Bucket{d: t.d, in: b, where: where}
}

func (t *RTx) BucketNames() ([]string, error) {
	e := t.d.hit("TxBucketNames", "")
	if e == Fail {
		return nil, ErrInjected
	}
	return t.in.BucketNames()
}

func (t *RTx) Rollback() error {
	t.d.Calls = append(t.d.Calls, "Rollback")
	return t.in.Rollback()
}

type Bucket struct {
	d     *DB
	in    walletdb.Bucket
	where string
}

func keyStr(k []byte) string {
	printable := true
	for _, c := range k {
		if c < 0x20 || c > 0x7e {
			printable = false
		}
	}
	if printable && len(k) <= 16 {
		return string(k)
	}
	if len(k) > 6 {
		return fmt.Sprintf("%x..", k[:2])
	}
	return fmt.Sprintf("%x", k)
}

func (b *Bucket) NewBucket(name string) (walletdb.Bucket, error) {
	w := short(b.where + "/" + name)
	e := b.d.hit("NewBucket", w)
	if e == Fail {
		return nil, ErrInjected
	}
	nb, err := b.in.NewBucket(name)
	if err != nil {
		return nil, err
	}
	b.d.after(e, "NewBucket", w)
	return &Bucket{d: b.d, in: nb, where: w}, nil
}

func (b *Bucket) Bucket(name string) walletdb.Bucket {
	w := short(b.where + "/" + name)
	e := b.d.hit("Bucket", w)
	if e == Fail {
		return nil
	}
	nb := b.in.Bucket(name)
	if nb == nil {
		return nil
	}
	return &Bucket{d: b.d, in: nb, where: w}
}

func (b *Bucket) BucketNames() ([]string, error) {
	e := b.d.hit("BucketNames", b.where)
	if e == Fail {
		return nil, ErrInjected
	}
	return b.in.BucketNames()
}

func (b *Bucket) DeleteBucket(name string) error {
	w := short(b.where + "/" + name)
	e := b.d.hit("DeleteBucket", w)
	if e == Fail {
		return ErrInjected
	}
	err := b.in.DeleteBucket(name)
	if err == nil {
		b.d.after(e, "DeleteBucket", w)
	}
	return err
}

func (b *Bucket) Put(key, value []byte) error {
	w := b.where + ":" + keyStr(key)
	e := b.d.hit("Put", w)
	if e == Fail {
		return ErrInjected
	}
	err := b.in.Put(key, value)
	if err == nil {
		b.d.after(e, "Put", w)
	}
	return err
}

func (b *Bucket) Delete(key []byte) error {
	w := b.where + ":" + keyStr(key)
	e := b.d.hit("Delete", w)
	if e == Fail {
		return ErrInjected
	}
	err := b.in.Delete(key)
	if err == nil {
		b.d.after(e, "Delete", w)
	}
	return err
}

func (b *Bucket) Get(key []byte) ([]byte, error) {
	w := b.where + ":" + keyStr(key)
	e := b.d.hit("Get", w)
	if e == Fail {
		return nil, ErrInjected
	}
	return b.in.Get(key)
}

func (b *Bucket) Clear() error {
	e := b.d.hit("Clear", b.where)
	if e == Fail {
		return ErrInjected
	}
	err := b.in.Clear()
	if err == nil {
		b.d.after(e, "Clear", b.where)
	}
	return err
}

func (b *Bucket) GetByPrefix(p []byte) ([]*walletdb.Entry, error) {
	w := b.where + ":" + keyStr(p) + "*"
	e := b.d.hit("GetByPrefix", w)
	if e == Fail {
		return nil, ErrInjected
	}
	return b.in.GetByPrefix(p)
}

func (b *Bucket) GetBucketMeta() walletdb.BucketMeta { return b.in.GetBucketMeta() }
