//go:build go1.23

// One-off generator of the valid-proof fixture used by miner-sim (run by hand, output committed as
// harness/minersim/poc/engine/pocminer/miner/zz_proofs_test.go, as a constant): real (key, x, x', z) tuples at bit
// length 24 such that several keys hold a valid proof for the same challenge prefix z.
package mkproofs

import (
	"encoding/json"
	"os"
	"testing"

	"github.com/massnetorg/mass-core/poc/pocutil"
	"github.com/massnetorg/mass-core/pocec"
	"verif/sim"
)

type Tuple struct {
	Key int    `json:"key"`
	X   uint64 `json:"x"`
	XP  uint64 `json:"xp"`
	Z   uint64 `json:"z"`
}

func keyOf(i int) (*pocec.PrivateKey, *pocec.PublicKey) {
	b := sim.DetBytes("minerkey", uint64(i), 32)
	b[0] &= 0x7f
	b[31] |= 1
	return pocec.PrivKeyFromBytes(pocec.S256(), b)
}

func TestGen(t *testing.T) {
	out := os.Getenv("MKPROOFS_OUT")
	if out == "" {
		t.Skip("set MKPROOFS_OUT")
	}
	const bl = 24
	vol := 1 << bl
	var tuples []Tuple
	// targets from key 0 by birthday search
	_, pub0 := keyOf(0)
	h0 := pocutil.PubKeyHash(pub0)
	seen := map[pocutil.PoCValue]uint64{}
	var targets []uint64
	for x := uint64(1); x < 1<<17 && len(targets) < 4; x++ {
		y := pocutil.P(pocutil.PoCValue(x), bl, h0)
		if xp, ok := seen[pocutil.FlipValue(y, bl)]; ok {
			z := uint64(pocutil.F(pocutil.PoCValue(x), pocutil.PoCValue(xp), bl, h0))
			targets = append(targets, z)
			tuples = append(tuples, Tuple{0, x, xp, z})
		}
		seen[y] = x
	}
	want := map[uint64]bool{}
	for _, z := range targets {
		want[z] = true
	}
	t.Logf("targets %v", targets)
	for k := 1; k <= 5; k++ {
		_, pub := keyOf(k)
		h := pocutil.PubKeyHash(pub)
		A := make([]uint32, vol)
		for x := 1; x < vol; x++ {
			A[pocutil.P(pocutil.PoCValue(x), bl, h)] = uint32(x)
		}
		half := vol / 2
		n := 0
		for y := 0; y < half; y++ {
			x, xp := A[y], A[pocutil.FlipValue(pocutil.PoCValue(y), bl)]
			if x == 0 || xp == 0 {
				continue
			}
			if z := uint64(pocutil.F(pocutil.PoCValue(x), pocutil.PoCValue(xp), bl, h)); want[z] {
				tuples = append(tuples, Tuple{k, uint64(x), uint64(xp), z})
				n++
			}
			if z := uint64(pocutil.F(pocutil.PoCValue(xp), pocutil.PoCValue(x), bl, h)); want[z] {
				tuples = append(tuples, Tuple{k, uint64(xp), uint64(x), z})
				n++
			}
		}
		t.Logf("key %d: %d matching proofs", k, n)
	}
	b, _ := json.MarshalIndent(tuples, "", " ")
	os.WriteFile(out, b, 0o644)
}
