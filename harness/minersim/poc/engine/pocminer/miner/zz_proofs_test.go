//go:build go1.25

package miner

// generated once by zzverif/mkproofs (TestGen); re-verified with library code at start-up
var zzProofsJSON = []byte(`[
 {
  "key": 0,
  "x": 2625,
  "xp": 99,
  "z": 15834426
 },
 {
  "key": 0,
  "x": 3463,
  "xp": 2358,
  "z": 7160502
 },
 {
  "key": 0,
  "x": 6348,
  "xp": 3548,
  "z": 13446290
 },
 {
  "key": 0,
  "x": 7093,
  "xp": 637,
  "z": 14151484
 },
 {
  "key": 1,
  "x": 16603786,
  "xp": 4125267,
  "z": 15834426
 },
 {
  "key": 2,
  "x": 16004705,
  "xp": 14801746,
  "z": 14151484
 },
 {
  "key": 3,
  "x": 6320813,
  "xp": 3034466,
  "z": 15834426
 },
 {
  "key": 3,
  "x": 14001859,
  "xp": 6989755,
  "z": 13446290
 },
 {
  "key": 5,
  "x": 7812547,
  "xp": 9658045,
  "z": 7160502
 }
]`)
