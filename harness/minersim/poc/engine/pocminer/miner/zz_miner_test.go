//go:build go1.25

package miner

// miner-sim (C08): the real sync miner (NewSyncMiner, generateBlocks, solveBlock, stale monitor,
// submitBlock) inside a synctest bubble with a fake clock; scripted Chain, SyncManager and
// SpaceKeeper behind the miner's own interfaces; real proofs (fixture re-verified with library
// code), real qualities, real header signatures. Oracle over every ProcessBlock call.

import (
	"context"
	"encoding/binary"
	"encoding/json"
	"fmt"
	"hash/fnv"
	"math/big"
	"os"
	"path/filepath"
	"sort"
	"testing"
	"time"

	"github.com/massnetorg/mass-core/blockchain"
	coreconfig "github.com/massnetorg/mass-core/config"
	"github.com/massnetorg/mass-core/logging"
	"github.com/massnetorg/mass-core/massutil"
	"github.com/massnetorg/mass-core/poc"
	"github.com/massnetorg/mass-core/poc/pocutil"
	"github.com/massnetorg/mass-core/pocec"
	"github.com/massnetorg/mass-core/wire"
	"massnet.org/mass/poc/engine"
	"verif/sim"
	"verif/sim/vsim"
)

type zzTuple struct {
	Key int    `json:"key"`
	X   uint64 `json:"x"`
	XP  uint64 `json:"xp"`
	Z   uint64 `json:"z"`
}

var (
	zzTuples  []zzTuple
	zzT       *testing.T
	zzTargets []uint64
)

func zzKeyOf(i int) (*pocec.PrivateKey, *pocec.PublicKey) {
	b := sim.DetBytes("minerkey", uint64(i), 32)
	b[0] &= 0x7f
	b[31] |= 1
	return pocec.PrivKeyFromBytes(pocec.S256(), b)
}

func TestSim(t *testing.T) {
	zzT = t
	dir := os.Getenv("VERIF_OUT")
	if dir == "" {
		dir = os.TempDir()
	}
	logging.Init(filepath.Join(dir, fmt.Sprintf("log-%d", os.Getpid())), "miner", "fatal", 0, true)
	if err := json.Unmarshal(zzProofsJSON, &zzTuples); err != nil {
		sim.EngineError("fixture: %v", err)
	}
	// re-verify the fixture with library code
	seen := map[uint64]bool{}
	for _, tp := range zzTuples {
		_, pub := zzKeyOf(tp.Key)
		var ch pocutil.Hash
		binary.LittleEndian.PutUint64(ch[:8], tp.Z)
		p := &poc.DefaultProof{X: pocutil.PoCValue2Bytes(pocutil.PoCValue(tp.X), 24), XPrime: pocutil.PoCValue2Bytes(pocutil.PoCValue(tp.XP), 24), BL: 24}
		if err := p.Verify(pocutil.PubKeyHash(pub), ch, false); err != nil {
			sim.EngineError("fixture tuple %+v does not verify: %v", tp, err)
		}
		if !seen[tp.Z] {
			seen[tp.Z] = true
			zzTargets = append(zzTargets, tp.Z)
		}
	}
	sim.Main(map[string]sim.RunFunc{"C08": zzRunC08})
}

// ---------------------------------------------------------------------------------------------
// scripted world

type zzProofSpec struct {
	sid     string
	key     int
	kind    string // valid | error | garbage | unbound
	proof   *engine.WorkSpaceProof
	bound   bool
}

type zzRound struct {
	n         int
	height    uint64
	prev      wire.Hash
	challenge wire.Hash
	ts0       time.Time // template timestamp as handed out
	proofs    []*zzProofSpec
	target    func(time.Time) *big.Int
	targetDesc string
	startedAt time.Time
	signedAt  time.Time
	signed    bool
	tipAt     time.Time // a better tip for this round's parent was delivered at
	tipBetter bool
	watching  bool // the round's stale monitor has asked for block notifications
}

type zzSubmit struct {
	round  *zzRound
	at     time.Time
	header wire.BlockHeader
	accept bool
}

type zzWorld struct {
	r       *sim.Run
	best    *blockchain.BlockNode
	waiters []chan *blockchain.BlockNode
	rounds  []*zzRound
	cur     *zzRound
	subs    []*zzSubmit
	stopAt  time.Time
	stopped bool
	peers   int
	caught  bool
	nextZ   func() uint64
	hashCtr uint64
	reject  bool
	signFail bool
	coinbase *massutil.Tx
}

func (w *zzWorld) newHash() wire.Hash {
	w.hashCtr++
	var h wire.Hash
	copy(h[:], sim.DetBytes("hash", w.hashCtr, 32))
	return h
}

// Chain
func (w *zzWorld) BestBlockNode() *blockchain.BlockNode { return w.best }
func (w *zzWorld) BestBlockHash() *wire.Hash          { return w.best.Hash }
func (w *zzWorld) BestBlockHeight() uint64            { return w.best.Height }
func (w *zzWorld) ChainID() *wire.Hash                { h := wire.Hash{}; return &h }
func (w *zzWorld) BlockWaiter(height uint64) (<-chan *blockchain.BlockNode, error) {
	ch := make(chan *blockchain.BlockNode, 1)
	w.waiters = append(w.waiters, ch)
	if w.cur != nil {
		w.cur.watching = true
	}
	return ch, nil
}

func (w *zzWorld) ProcessBlock(b *massutil.Block) (bool, error) {
	h := b.MsgBlock().Header
	s := &zzSubmit{round: w.cur, at: time.Now(), header: h, accept: !w.reject}
	w.subs = append(w.subs, s)
	w.r.Event("t=%s ProcessBlock height=%d slot=%d key=%s accept=%v", zzClock(), h.Height, h.Timestamp.Unix()/3, zzKeyName(h.PubKey), s.accept)
	if w.reject {
		return false, fmt.Errorf("scripted rejection")
	}
	hash := b.Hash()
	w.best = &blockchain.BlockNode{Hash: hash, Height: h.Height, CapSum: new(big.Int).Add(w.best.CapSum, big.NewInt(100)), Timestamp: h.Timestamp, Quality: big.NewInt(1), Previous: h.Previous}
	return false, nil
}

var zzEpoch time.Time

func zzClock() string { return fmt.Sprintf("%.2fs", time.Since(zzEpoch).Seconds()) }

func zzKeyName(p interface{}) string {
	if pk, ok := p.(*pocec.PublicKey); ok && pk != nil && pk.X != nil {
		for i := 0; i <= 5; i++ {
			_, pub := zzKeyOf(i)
			if pub.IsEqual(pk) {
				return fmt.Sprintf("K%d", i)
			}
		}
	}
	return "K?"
}

func (w *zzWorld) NewBlockTemplate(addrs []massutil.Address, ch chan interface{}) error {
	t := w.r.T
	rd := &zzRound{n: len(w.rounds), height: w.best.Height + 1, prev: *w.best.Hash, startedAt: time.Now()}
	z := w.nextZ()
	copy(rd.challenge[:], sim.DetBytes("challenge", uint64(len(w.rounds))*7+z, 32))
	binary.LittleEndian.PutUint64(rd.challenge[:8], z|uint64(t.Choose("chal.hi", 1<<16))<<24)
	// template time relative to now
	off := []time.Duration{-40 * time.Second, -4 * time.Second, 0, 1500 * time.Millisecond, 3 * time.Second, 5 * time.Second, 9 * time.Second, 21 * time.Second}[t.Choose("tmpl.off", 8)]
	rd.ts0 = time.Now().Add(off).Truncate(time.Second)
	// proofs offered by the mining spaces
	for i, tp := range zzTuples {
		if tp.Z != z {
			continue
		}
		_, pub := zzKeyOf(tp.Key)
		spec := &zzProofSpec{sid: fmt.Sprintf("space-%d-%d", tp.Key, i), key: tp.Key, kind: "valid", bound: true}
		p := &poc.DefaultProof{X: pocutil.PoCValue2Bytes(pocutil.PoCValue(tp.X), 24), XPrime: pocutil.PoCValue2Bytes(pocutil.PoCValue(tp.XP), 24), BL: 24}
		spec.proof = &engine.WorkSpaceProof{SpaceID: spec.sid, Proof: p, PublicKey: pub, Ordinal: int64(tp.Key)}
		switch t.Weighted("proof.kind", []int{10, 2, 1, 3, 1}) {
		case 1:
			spec.kind = "error"
			spec.proof.Error = fmt.Errorf("db corrupted")
			spec.proof.Proof = nil
		case 2:
			spec.kind = "garbage"
			p.X = pocutil.PoCValue2Bytes(pocutil.PoCValue(tp.X+1), 24)
		case 3:
			spec.kind = "unbound"
			spec.bound = false
		case 4:
			continue // this space is not mining
		}
		rd.proofs = append(rd.proofs, spec)
	}
	// target function: around the qualities of the offered proofs
	var qs []*big.Int
	filter := poc.EnforceMASSIP0002(rd.height)
	for _, sp := range rd.proofs {
		if sp.kind != "valid" && sp.kind != "unbound" {
			continue
		}
		for k := 0; k < 6; k++ {
			ts := rd.ts0.Add(time.Duration(k) * 3 * time.Second)
			if q, err := sp.proof.Proof.VerifiedQuality(pocutil.PubKeyHash(sp.proof.PublicKey), pocutil.Hash(rd.challenge), filter, uint64(ts.Unix())/3, rd.height); err == nil {
				qs = append(qs, q)
			}
		}
	}
	sort.Slice(qs, func(i, j int) bool { return qs[i].Cmp(qs[j]) < 0 })
	base := big.NewInt(1)
	if len(qs) > 0 {
		base = new(big.Int).Set(qs[t.Choose("target.rank", len(qs))])
	}
	switch t.Choose("target.kind", 4) {
	case 0: // constant just below a quality: that proof at that slot is eligible
		c := new(big.Int).Sub(base, big.NewInt(1))
		rd.target, rd.targetDesc = func(time.Time) *big.Int { return new(big.Int).Set(c) }, "const(q-1)"
	case 1: // constant equal to a quality: not eligible (must exceed)
		c := new(big.Int).Set(base)
		rd.target, rd.targetDesc = func(time.Time) *big.Int { return new(big.Int).Set(c) }, "const(q)"
	case 2: // high for the first slots, then low
		k := int64(t.Choose("target.step", 4))
		t0 := rd.ts0
		hi := new(big.Int).Lsh(base, 8)
		rd.target, rd.targetDesc = func(ts time.Time) *big.Int {
			if ts.Sub(t0) < time.Duration(k)*3*time.Second {
				return new(big.Int).Set(hi)
			}
			return big.NewInt(0)
		}, fmt.Sprintf("step(%d)", k)
	default: // unreachable target: nothing is ever eligible
		hi := new(big.Int).Lsh(base, 40)
		rd.target, rd.targetDesc = func(time.Time) *big.Int { return new(big.Int).Set(hi) }, "unreachable"
	}
	w.rounds = append(w.rounds, rd)
	w.cur = rd
	kinds := ""
	for _, sp := range rd.proofs {
		kinds += fmt.Sprintf(" K%d:%s", sp.key, sp.kind)
	}
	w.r.Event("t=%s round %d: height=%d template at now%+.1fs (slot %d) target=%s proofs:%s", zzClock(), rd.n, rd.height, off.Seconds(), rd.ts0.Unix()/3, rd.targetDesc, kinds)

	pt := &blockchain.PoCTemplate{Height: rd.height, Timestamp: rd.ts0, Previous: rd.prev, Challenge: rd.challenge,
		GetTarget: rd.target,
		GetCoinbase: func(blockchain.Proof, massutil.Amount) (*massutil.Tx, error) { return w.coinbase, nil },
		PassBinding: func(p blockchain.Proof) bool {
			wp, ok := p.(*engine.WorkSpaceProof)
			if !ok {
				return false
			}
			for _, sp := range rd.proofs {
				if sp.sid == wp.SpaceID {
					return sp.bound
				}
			}
			return false
		}}
	hdr := wire.NewEmptyBlockHeader()
	hdr.Height, hdr.Previous, hdr.Version = rd.height, rd.prev, 1
	blk := wire.NewMsgBlock(hdr)
	blk.Transactions = []*wire.MsgTx{w.coinbase.MsgTx()}
	cbHash := w.coinbase.MsgTx().TxHash()
	bt := &blockchain.BlockTemplate{Block: blk, Height: rd.height, MerkleCache: []*wire.Hash{&cbHash}, WitnessMerkleCache: []*wire.Hash{&cbHash}}
	ch <- pt
	ch <- bt
	return nil
}

// SyncManager
func (w *zzWorld) IsCaughtUp() bool { return w.caught }
func (w *zzWorld) PeerCount() int   { return w.peers }

// SpaceKeeper (only what the miner uses)
type zzKeeper struct{ w *zzWorld }

func (k zzKeeper) Start() error   { return nil }
func (k zzKeeper) Stop() error    { return nil }
func (k zzKeeper) Started() bool  { return true }
func (k zzKeeper) Type() string   { return "scripted" }
func (k zzKeeper) WorkSpaceIDs(engine.WorkSpaceStateFlags) ([]string, error) { return nil, nil }
func (k zzKeeper) WorkSpaceInfos(engine.WorkSpaceStateFlags) ([]engine.WorkSpaceInfo, error) {
	return nil, nil
}
func (k zzKeeper) GetProof(context.Context, string, pocutil.Hash, bool) (*engine.WorkSpaceProof, error) {
	return nil, fmt.Errorf("unused")
}
func (k zzKeeper) GetProofs(ctx context.Context, flags engine.WorkSpaceStateFlags, ch pocutil.Hash, filter bool) ([]*engine.WorkSpaceProof, error) {
	rd := k.w.cur
	var out []*engine.WorkSpaceProof
	for _, sp := range rd.proofs {
		out = append(out, sp.proof)
	}
	return out, nil
}
func (k zzKeeper) GetProofReader(context.Context, string, pocutil.Hash, bool) (engine.ProofReader, error) {
	return nil, fmt.Errorf("unused")
}
func (k zzKeeper) GetProofsReader(context.Context, engine.WorkSpaceStateFlags, pocutil.Hash, bool) (engine.ProofReader, error) {
	return nil, fmt.Errorf("unused")
}
func (k zzKeeper) ActOnWorkSpace(string, engine.ActionType) error { return nil }
func (k zzKeeper) ActOnWorkSpaces(engine.WorkSpaceStateFlags, engine.ActionType) (map[string]error, error) {
	return nil, nil
}
func (k zzKeeper) SignHash(sid string, hash [32]byte) (*pocec.Signature, error) {
	rd := k.w.cur
	rd.signed, rd.signedAt = true, time.Now()
	if k.w.signFail {
		return nil, fmt.Errorf("wallet locked")
	}
	for _, sp := range rd.proofs {
		if sp.sid == sid {
			priv, _ := zzKeyOf(sp.key)
			d := wire.HashH(hash[:])
			return priv.Sign(d[:])
		}
	}
	return nil, fmt.Errorf("unknown space %s", sid)
}

// ---------------------------------------------------------------------------------------------

func zzRunC08(r *sim.Run) {
	t := r.T
	w := &zzWorld{r: r, peers: 1, caught: true}
	b := vsim.NewBubble(t.Choose)
	vsim.TakePanics()
	letTime := false
	var stopReturned bool
	var stopTook time.Duration
	var hung bool
	_, perr := vsim.RunBubble(zzT, b, func() {
		zzEpoch = time.Now()
		gh := w.newHash()
		w.best = &blockchain.BlockNode{Hash: &gh, Height: uint64(100 + t.Choose("h0", 50)), CapSum: big.NewInt(1000), Timestamp: time.Now().Add(-10 * time.Second), Quality: big.NewInt(5)}
		zsel := t.Choose("zmode", 3)
		w.nextZ = func() uint64 {
			if zsel == 0 {
				return zzTargets[0] // the challenge prefix three spaces hold a proof for
			}
			return zzTargets[t.Choose("z", len(zzTargets))]
		}
		mtx := wire.NewMsgTx()
		mtx.AddTxOut(wire.NewTxOut(1000, []byte{0x51}))
		w.coinbase = massutil.NewTx(mtx)
		newBlockCh := make(chan *wire.Hash, 4)
		addr, _ := massutil.NewAddressPubKeyHash(make([]byte, 20), &coreconfig.ChainParams)
		var addrs []massutil.Address
		if addr != nil {
			addrs = append(addrs, addr)
		} else {
			addrs = append(addrs, nil)
		}
		mi, err := NewSyncMiner(true, Chain(w), SyncManager(w), zzKeeper{w}, newBlockCh, addrs)
		if err != nil {
			sim.EngineError("NewSyncMiner: %v", err)
		}
		m := mi.(*PoCMiner)
		drain := true
		b.Go("netsync-drain", func() {
			for drain {
				select {
				case <-newBlockCh:
				case <-time.After(time.Second):
				}
			}
		})
		// the script of external events
		type ev struct {
			at   time.Duration
			what string
		}
		var evs []ev
		nev := t.Choose("nevents", 5)
		for i := 0; i < nev; i++ {
			// (on the 250 ms grid of the miner's own rhythm, so that an event often falls into the very
			// instant in which a round begins)
			evs = append(evs, ev{time.Duration(1+t.Choose("ev.at", 160)) * 250 * time.Millisecond,
				[]string{"tip-better", "tip-earlier", "tip-higher-quality", "tip-worse", "tip-later", "tip-lower-quality", "tip-equal", "reject-on", "reject-off", "sync-lost", "sync-back", "reorg", "restart"}[t.Choose("ev.kind", 13)]})
		}
		sort.Slice(evs, func(i, j int) bool { return evs[i].at < evs[j].at })
		runFor := time.Duration(8+t.Choose("runfor", 50)) * time.Second
		b.Go("script", func() {
			if err := m.Start(); err != nil {
				sim.EngineError("miner start: %v", err)
			}
			start := time.Now()
			for _, e := range evs {
				if e.at > runFor {
					break
				}
				time.Sleep(time.Until(start.Add(e.at)))
				// the scheduler decides whether the event or the miner goes first in this instant
				vsim.Yield("event due")
				switch e.what {
				case "tip-better", "tip-worse", "tip-equal", "tip-earlier", "tip-later", "tip-higher-quality", "tip-lower-quality":
					cur := w.best
					nh := w.newHash()
					n := &blockchain.BlockNode{Hash: &nh, Height: cur.Height, Timestamp: cur.Timestamp, Quality: new(big.Int).Set(cur.Quality), CapSum: new(big.Int).Set(cur.CapSum)}
					better := false
					switch e.what {
					case "tip-better":
						n.CapSum.Add(n.CapSum, big.NewInt(1))
						better = true
					case "tip-worse":
						n.CapSum.Sub(n.CapSum, big.NewInt(1))
					// the chain's fork choice (mass-core blockchain.isPotentialNewBestChain): larger
					// capacity sum, then the earlier timestamp, then the higher quality
					case "tip-earlier":
						n.Timestamp = n.Timestamp.Add(-3 * time.Second)
						better = true
					case "tip-later":
						n.Timestamp = n.Timestamp.Add(3 * time.Second)
					case "tip-higher-quality":
						n.Quality.Add(n.Quality, big.NewInt(1))
						better = true
					case "tip-lower-quality":
						if n.Quality.Sign() > 0 {
							n.Quality.Sub(n.Quality, big.NewInt(1))
						}
					}
					r.Event("t=%s competing tip (%s) at height %d delivered to %d waiters", zzClock(), e.what, cur.Height, len(w.waiters))
					ws := w.waiters
					w.waiters = nil
					if better {
						w.best = n
						// (the clock of "abandon the round" starts only if somebody was told: a tip that
						// comes in the instant between a notification and the monitor's re-registration
						// reaches no waiter, here as with the real chain's one-shot waiters)
						// ... and a tip that comes after the template was drawn but before the round's
						// monitor exists is visible to the miner all the same: the best block is no longer
						// the template's parent when the monitor starts
						if w.cur != nil && w.cur.prev == *cur.Hash && !w.cur.watching {
							r.Probe("better-tip-between-template-and-monitor")
						}
						if w.cur != nil && w.cur.prev == *cur.Hash && !w.cur.tipBetter && (len(ws) > 0 || !w.cur.watching) {
							w.cur.tipBetter, w.cur.tipAt = true, time.Now()
						}
					}
					for _, c := range ws {
						select {
						case c <- n:
						default:
						}
					}
				case "reorg":
					// the best chain switches to a heavier sibling of the current tip's parent: the
					// height of the current tip is offered for mining once more
					cur := w.best
					if cur.Height < 2 {
						break
					}
					nh := w.newHash()
					w.best = &blockchain.BlockNode{Hash: &nh, Height: cur.Height - 1, Timestamp: cur.Timestamp.Add(-3 * time.Second), Quality: new(big.Int).Set(cur.Quality),
						CapSum: new(big.Int).Add(cur.CapSum, big.NewInt(1))}
					r.Event("t=%s reorganisation: best tip now at height %d (was %d)", zzClock(), w.best.Height, cur.Height)
				case "restart":
					r.Event("t=%s Stop() / Start()", zzClock())
					t0 := time.Now()
					m.Stop()
					if d := time.Since(t0); d > 30*time.Second {
						r.Fail("C08/stop-slow/stop", "miner.Stop() took %v of simulated time", d)
					}
					if err := m.Start(); err != nil {
						// (a service that cannot be started again is not what this check is about)
						r.Event("restart refused: %v", err)
						stopReturned = true
						drain = false
						return
					}
				case "reject-on":
					w.reject = true
				case "reject-off":
					w.reject = false
				case "sync-lost":
					w.peers = 0
				case "sync-back":
					w.peers = 1
				}
			}
			time.Sleep(time.Until(start.Add(runFor)))
			w.stopAt = time.Now()
			r.Event("t=%s Stop()", zzClock())
			m.Stop()
			stopTook = time.Since(w.stopAt)
			w.stopped = true
			stopReturned = true
			drain = false
		})
		reason := b.RunUntil(func() bool { return stopReturned }, runFor+10*time.Minute, 400000, letTime)
		if reason != vsim.Done {
			hung = true
			r.Fail("C08/stop-does-not-return/"+[...]string{"done", "blocked", "horizon", "budget"}[reason], "miner.Stop() did not return (%v); live goroutines %v", reason, b.LiveGoroutines())
		}
		b.RunUntil(func() bool { return false }, 5*time.Second, 2000, false)
		r.SimTime += time.Since(zzEpoch)
		b.KillAll()
	})
	if perr != nil {
		r.Fail("C08/panic/bubble", "bubble ended with panic: %v", perr)
	}
	for _, gp := range vsim.TakePanics() {
		r.Fail("C08/panic/"+sim.PanicSite(gp.Stack), "goroutine %s panicked: %v", gp.Site, gp.Val)
	}
	r.Preempts += b.Preempt
	r.Ops += len(w.rounds) + len(w.subs)
	r.Count("rounds", len(w.rounds))
	r.Count("blocks-submitted", len(w.subs))
	if hung {
		return
	}
	if stopTook > 30*time.Second {
		r.Fail("C08/stop-slow/stop", "miner.Stop() took %v of simulated time", stopTook)
	}
	zzCheckSubmits(r, w)
	h := fnv.New64a()
	fmt.Fprint(h, len(w.rounds), len(w.subs))
	r.State(h.Sum64())
}

func zzCheckSubmits(r *sim.Run, w *zzWorld) {
	accepted := map[uint64]int{}
	for _, s := range w.subs {
		rd := s.round
		h := &s.header
		if rd == nil {
			r.Fail("C08/block-without-round/submit", "a block was submitted before any template was requested")
			continue
		}
		if h.Height != rd.height || h.Challenge != rd.challenge || h.Previous != rd.prev {
			r.Fail("C08/block-not-from-template/submit", "submitted block (height %d) does not belong to the current template (height %d)", h.Height, rd.height)
			continue
		}
		pub, ok := h.PubKey.(*pocec.PublicKey)
		if !ok {
			r.Fail("C08/no-public-key/submit", "submitted header carries no plot key")
			continue
		}
		filter := poc.EnforceMASSIP0002(rd.height)
		slot := uint64(h.Timestamp.Unix()) / 3
		q, err := h.Proof.VerifiedQuality(pocutil.PubKeyHash(pub), pocutil.Hash(rd.challenge), filter, slot, rd.height)
		if err != nil {
			r.Fail("C08/proof-does-not-verify/submit", "submitted proof (key %s) does not verify for the template's challenge: %v", zzKeyName(pub), err)
			continue
		}
		// which offered proof is it
		var win *zzProofSpec
		for _, sp := range rd.proofs {
			if sp.proof.PublicKey != nil && sp.proof.PublicKey.IsEqual(pub) {
				win = sp
			}
		}
		if win == nil {
			r.Fail("C08/unknown-proof/submit", "submitted proof belongs to none of the offered spaces")
			continue
		}
		if !win.bound {
			r.Fail("C08/unbound-proof-submitted/submit", "the submitted proof (key K%d) does not pass binding", win.key)
		}
		tgt := rd.target(h.Timestamp)
		if q.Cmp(tgt) <= 0 {
			r.Fail("C08/quality-not-above-target/submit", "submitted block at slot %d: quality %v does not exceed the target %v at its timestamp", slot, q, tgt)
		}
		if h.Target == nil || h.Target.Cmp(tgt) != 0 {
			r.Fail("C08/header-target-wrong/submit", "header target %v, template target at the block's timestamp %v", h.Target, tgt)
		}
		// earliest eligible slot, best quality at that slot
		if (h.Timestamp.Sub(rd.ts0))%(3*time.Second) != 0 || h.Timestamp.Before(rd.ts0) {
			r.Fail("C08/timestamp-off-grid/submit", "block timestamp %v is not the template time %v plus whole slots", h.Timestamp.Unix(), rd.ts0.Unix())
		}
		for _, sp := range rd.proofs {
			if sp.kind != "valid" || !sp.bound {
				continue
			}
			for ts := rd.ts0; !ts.After(h.Timestamp); ts = ts.Add(3 * time.Second) {
				pq, err := sp.proof.Proof.VerifiedQuality(pocutil.PubKeyHash(sp.proof.PublicKey), pocutil.Hash(rd.challenge), filter, uint64(ts.Unix())/3, rd.height)
				if err != nil {
					continue
				}
				if ts.Before(h.Timestamp) && pq.Cmp(rd.target(ts)) > 0 {
					r.Fail("C08/not-earliest-slot/submit", "block mined at slot %d, but proof K%d was already eligible at slot %d (quality %v > target %v)", slot, sp.key, ts.Unix()/3, pq, rd.target(ts))
				}
				if ts.Equal(h.Timestamp) && pq.Cmp(q) > 0 {
					r.Fail("C08/not-best-quality/submit", "block mined with K%d (quality %v) although K%d has quality %v at the same slot", win.key, q, sp.key, pq)
				}
			}
		}
		if okSig, err := h.VerifySig(); err != nil || !okSig {
			r.Fail("C08/bad-signature/submit", "header signature does not verify under the winning space's key (%v)", err)
		}
		if !s.at.After(h.Timestamp) {
			r.Fail("C08/submitted-before-timestamp/submit", "block with timestamp %v handed to ProcessBlock at %v", h.Timestamp.Unix(), s.at.Unix())
		}
		if rd.signed {
			nowSlot := uint64(rd.signedAt.Unix()) / 3
			if slot > nowSlot+allowAhead {
				r.Fail("C08/beyond-look-ahead/submit", "slot %d chosen at slot %d: more than %d ahead", slot, nowSlot, allowAhead)
			}
		}
		if rd.tipBetter && rd.signed && rd.signedAt.Sub(rd.tipAt) > 1500*time.Millisecond {
			r.Fail("C08/round-not-abandoned/better-tip", "a better tip for the round's parent arrived at %v, yet the round went on and signed a block %.2fs later", rd.tipAt.Unix(), rd.signedAt.Sub(rd.tipAt).Seconds())
		}
		if w.stopped && s.at.After(w.stopAt.Add(stopGrace)) {
			r.Fail("C08/submitted-after-stop/submit", "a block was submitted %.2fs after Stop was called", s.at.Sub(w.stopAt).Seconds())
		}
		if s.accept {
			accepted[h.Height]++
			if accepted[h.Height] > 1 {
				r.Fail("C08/height-mined-twice/submit", "height %d was mined successfully twice", h.Height)
			}
		}
	}
}

const stopGrace = 8 * time.Second
