//go:build go1.23

package api

// api-sim (C04, configuration "api"): the wallet handlers of the API server (export to a file,
// import from a file, unlock, lock, passphrase changes) over the real keystore manager on the
// simulated disk. After every request the log written so far, every file on the disk (wallet
// store, exported files) and the response are scanned for the wallet's passphrases - the ones in
// force, superseded ones and the ones a request just tried to set - in four encodings.

import (
	"bytes"
	"context"
	"crypto/rand"
	"encoding/base64"
	"encoding/hex"
	"fmt"
	"os"
	"path/filepath"
	"strings"
	"testing"

	"github.com/golang/protobuf/ptypes/empty"
	"github.com/massnetorg/mass-core/logging"
	pb "massnet.org/mass/api/proto"
	"massnet.org/mass/config"
	"massnet.org/mass/mining"
	walletdb "massnet.org/mass/poc/wallet/db"
	_ "massnet.org/mass/poc/wallet/db/ldb"
	"massnet.org/mass/poc/wallet/keystore"
	"massnet.org/mass/poc/wallet/keystore/snacl"
	"verif/sim"
	"verif/sim/vos"
)

var zzLogDir string

func TestSim(t *testing.T) {
	dir := os.Getenv("VERIF_OUT")
	if dir == "" {
		dir = os.TempDir()
	}
	zzLogDir = filepath.Join(dir, fmt.Sprintf("log-%d", os.Getpid()))
	os.MkdirAll(zzLogDir, 0o700)
	logging.Init(zzLogDir, "sim", "debug", 0, true)
	sim.Main(map[string]sim.RunFunc{"C04": zzRunC04API})
}

var zzLogOff = map[string]int64{}

// zzLogTail returns what the node logged since the previous call (all files of the log directory).
func zzLogTail() []byte {
	var out []byte
	ents, _ := os.ReadDir(zzLogDir)
	for _, e := range ents {
		p := filepath.Join(zzLogDir, e.Name())
		f, err := os.Open(p)
		if err != nil {
			continue
		}
		st, err := f.Stat()
		if err == nil && st.Size() > zzLogOff[p] {
			buf := make([]byte, st.Size()-zzLogOff[p])
			n, _ := f.ReadAt(buf, zzLogOff[p])
			zzLogOff[p] += int64(n)
			out = append(out, buf[:n]...)
		} else if err == nil && st.Size() < zzLogOff[p] {
			zzLogOff[p] = 0
		}
		f.Close()
	}
	return out
}

func zzPass(n int) string {
	const alpha = "0123456789abcdefghijklmnopqrstuvwxyzABCDEFGHIJKLMNOPQRSTUVWXYZ@#$%^&"
	b := sim.DetBytes("apipass", uint64(n), 16)
	out := make([]byte, 16)
	for i, c := range b {
		out[i] = alpha[int(c)%len(alpha)]
	}
	return string(out)
}

type zzNeedle struct {
	what string
	val  []byte
}

func zzForms(n zzNeedle) []zzNeedle {
	return []zzNeedle{n,
		{n.what + " (hex)", []byte(hex.EncodeToString(n.val))},
		{n.what + " (base64)", []byte(base64.StdEncoding.EncodeToString(n.val))},
		{n.what + " (quoted)", []byte(fmt.Sprintf("%q", n.val))[1 : len(fmt.Sprintf("%q", n.val))-1]}}
}

func zzRunC04API(r *sim.Run) {
	t := r.T
	disk := vos.New()
	vos.Cur = disk
	det := sim.NewDetReader(sim.Mix(r.Seed, 4))
	rand.Reader = det
	snacl.ZZSetPRNG(det)
	keystore.DefaultScryptOptions = keystore.ScryptOptions{N: []int{2, 16}[t.Choose("knob.scryptN", 2)], R: 8, P: 1}
	zzLogTail()
	pub, priv := zzPass(1), zzPass(2)
	passCtr := 2
	store, err := walletdb.CreateDB("leveldb", "/node/keystore")
	if err != nil {
		sim.EngineError("store: %v", err)
	}
	defer func() { store.Close() }()
	kmc, err := keystore.NewKeystoreManagerForPoC(store, []byte(pub), config.ChainParams)
	if err != nil {
		sim.EngineError("manager: %v", err)
	}
	disk.MkdirAll("/export", 0o700)
	var needles []zzNeedle
	addNeedle := func(what, v string) {
		for _, n := range needles {
			if string(n.val) == v {
				return
			}
		}
		needles = append(needles, zzForms(zzNeedle{what, []byte(v)})...)
	}
	addNeedle("public passphrase", pub)
	addNeedle("private passphrase", priv)
	var ids []string
	nks := 1 + t.Choose("nkeystores", 2)
	for i := 0; i < nks; i++ {
		id, err := kmc.NewKeystore([]byte(priv), sim.DetBytes("apiseed", uint64(i)+r.Seed%7, 32), fmt.Sprintf("ks%d", i), config.ChainParams, &keystore.DefaultScryptOptions)
		if err != nil {
			sim.EngineError("keystore: %v", err)
		}
		ids = append(ids, id)
	}
	srv := &Server{pocWallet: kmc, pocMiner: mining.NewMockedPoCMiner()}
	ctx := context.Background()
	var exported []string // paths of files the API wrote
	scan := func(after string, resp string) {
		check := func(where string, data []byte) {
			for _, n := range needles {
				if len(n.val) >= 6 && bytes.Contains(data, n.val) {
					r.Fail("C04/secret-in-"+where+"/"+strings.Split(n.what, " (")[0], "after %s the %s contains the %s", after, where, n.what)
				}
			}
		}
		check("log", zzLogTail())
		check("api-response", []byte(resp))
		for _, p := range disk.Paths() {
			if data, ok := disk.Content(p); ok {
				where := "wallet-store"
				if strings.HasPrefix(p, "/export") {
					where = "exported-file"
				}
				check(where, data)
			}
		}
	}
	scan("start-up", "")
	wrong := func() string { passCtr++; return zzPass(1000 + passCtr) }
	nops := 3 + t.Choose("nops", 8)
	for i := 0; i < nops && !r.Failed(); i++ {
		r.Ops++
		kind := t.Weighted("api.op", []int{4, 5, 3, 2, 3, 3, 1})
		desc, resp := "", ""
		var err error
		switch kind {
		case 0: // export
			id := ids[t.Choose("api.ks", len(ids))]
			pass := priv
			if t.Bool("api.wrongpass", 1, 4) {
				pass = wrong()
			}
			path := []string{"/export", "/export", "/no/such/dir"}[t.Choose("api.exportpath", 3)]
			var out *pb.ExportKeystoreResponse
			out, err = srv.ExportKeystore(ctx, &pb.ExportKeystoreRequest{WalletId: id, Passphrase: pass, ExportPath: path})
			desc = fmt.Sprintf("ExportKeystore(%s.., right passphrase=%v, %s)", id[:8], pass == priv, path)
			if out != nil {
				resp = out.Keystore
				exported = append(exported, fmt.Sprintf("%s/%s-%s.json", path, keystoreFileNamePrefix, id))
			}
		case 1: // import
			path := "/export/missing.json"
			switch t.Choose("api.importfile", 4) {
			case 0:
				if len(exported) > 0 {
					path = exported[t.Choose("api.which", len(exported))]
				}
			case 1:
				if len(exported) > 0 {
					src := exported[t.Choose("api.which", len(exported))]
					if data, ok := disk.Content(src); ok && len(data) > 10 {
						bad := append([]byte{}, data...)
						bad[t.Choose("api.flip", len(bad))] ^= 0x20
						path = "/export/damaged.json"
						disk.Put(path, bad)
					}
				}
			case 2:
				path = "/export" // a directory
			}
			old := priv
			if t.Bool("api.wrongpass", 1, 3) {
				old = wrong()
			}
			newp := ""
			if t.Bool("api.newpass", 1, 2) {
				passCtr++
				newp = zzPass(passCtr)
				addNeedle("private passphrase given for an import", newp)
			}
			var out *pb.ImportKeystoreResponse
			out, err = srv.ImportKeystore(ctx, &pb.ImportKeystoreRequest{ImportPath: path, OldPassphrase: old, NewPassphrase: newp})
			desc = fmt.Sprintf("ImportKeystore(%s, right passphrase=%v, new passphrase=%v)", path, old == priv, newp != "")
			if out != nil {
				resp = out.String()
			}
		case 2: // unlock
			pass := priv
			if t.Bool("api.wrongpass", 1, 3) {
				pass = wrong()
			}
			var out *pb.UnlockWalletResponse
			out, err = srv.UnlockWallet(ctx, &pb.UnlockWalletRequest{Passphrase: pass})
			desc = fmt.Sprintf("UnlockWallet(right passphrase=%v)", pass == priv)
			if out != nil {
				resp = out.String()
			}
		case 3:
			var out *pb.LockWalletResponse
			out, err = srv.LockWallet(ctx, &empty.Empty{})
			desc = "LockWallet()"
			if out != nil {
				resp = out.String()
			}
		case 4: // change private passphrase
			old := priv
			if t.Bool("api.wrongpass", 1, 3) {
				old = wrong()
			}
			passCtr++
			np := zzPass(passCtr)
			addNeedle("new private passphrase", np)
			var out *pb.ChangePrivatePassResponse
			out, err = srv.ChangePrivatePass(ctx, &pb.ChangePrivatePassRequest{OldPrivpass: old, NewPrivpass: np})
			desc = fmt.Sprintf("ChangePrivatePass(right old passphrase=%v)", old == priv)
			if err == nil {
				priv = np
			}
			if out != nil {
				resp = out.String()
			}
		case 5: // change public passphrase
			old := pub
			if t.Bool("api.wrongpass", 1, 3) {
				old = wrong()
			}
			passCtr++
			np := zzPass(passCtr)
			addNeedle("new public passphrase", np)
			var out *pb.ChangePublicPassResponse
			out, err = srv.ChangePublicPass(ctx, &pb.ChangePublicPassRequest{OldPubpass: old, NewPubpass: np})
			desc = fmt.Sprintf("ChangePublicPass(right old passphrase=%v)", old == pub)
			if err == nil {
				pub = np
			}
			if out != nil {
				resp = out.String()
			}
		default:
			var out *pb.GetKeystoreResponse
			out, err = srv.GetKeystore(ctx, &empty.Empty{})
			desc = "GetKeystore()"
			if out != nil {
				resp = out.String()
			}
		}
		if err != nil {
			resp += " " + err.Error()
		}
		r.Event("%s -> err=%v", desc, err != nil)
		scan(desc, resp)
	}
	r.State(uint64(len(exported))<<8 | uint64(len(needles)))
}
